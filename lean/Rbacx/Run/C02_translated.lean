import Rbacx.Generated
import Rbacx.Proofs.PyLibLemmas
import Rbacx.Proofs.RawDict
import Rbacx.Model.PolicySet
/-!
  Per-run obligation (C02): the COMBINING LOGIC of `policy.evaluate` and `policyset.decide` as it is written NOW.  harness/pytolean.py
  translates four pure fragments of the current source text statement by statement into `Rbacx.Generated.Src.*`:

  * `evaluate_step`  — the body of `for rule in rules` from `rule_obl = …` to its end (the rule is known to apply),
  * `evaluate_final` — everything after that loop (the per-algorithm finalisation and the returned dict),
  * `decide_step`    — the body of `for pol in policies` from `rid = …` to its end (the child's result `res` is known),
  * `decide_final`   — everything after that loop.

  Proved here, for every input: each fragment computes what the hand-written model computes (`stepRule` / `finalise` of
  Model/Policy.lean, `stepChild` / `finaliseSet` of Model/PolicySet.lean — the functions the theorems `Rbacx.C02.*` are about),
  through the encodings of Proofs/RawDict.lean.  Hypotheses where the model abstracts: `algo`, `effect`, `decision`, `reason` are
  Python strings (they are results of `.lower()` / literals); a child result is a dict describing some `Raw` (`Represents`, which
  holds for what `evaluate_final` and `decide_final` return — `evaluate_final_represents`, `decide_final`), in whatever key order.
-/
set_option linter.unusedSimpArgs false
namespace Rbacx.Translated
open Rbacx Rbacx.Py Rbacx.Generated PyVal

/-! ### `policy.evaluate` -/

/-- the loop-carried variables of `evaluate`, in the order of the fragment's result tuple:
    last_rule_id, decision, obligations, reason, any_deny, deny_rule_id, any_permit, permit_rule_id, permit_obligations -/
def encLoopSt (s : LoopSt) : List PyVal :=
  [s.lastRuleId, .str s.decision, .list s.obligations, .str s.reason, .bool s.anyDeny, s.denyRuleId, .bool s.anyPermit,
   s.permitRuleId, .list s.permitObls]

/-- the values the source gives these variables before the loop -/
theorem encLoopSt_init :
    encLoopSt {} = [.none, .str "deny", .list [], .str "no_match", .bool false, .none, .bool false, .none, .list []] := rfl

theorem eq_str (a b : String) : (Py.eq (.str a) (.str b)).truthy = (a == b) := rfl

/-- `list(rule_obl) if isinstance(rule_obl, list) else []` with `rule_obl = rule.get("obligations") or []` -/
theorem obligations_of (rule : PyVal) :
    (if (Py.isInstance (por (Py.get rule "obligations") (.list [])) "list").truthy
      then PyVal.list (Py.iter (por (Py.get rule "obligations") (.list []))) else PyVal.list []) =
      .list (ruleObligations rule) := by
  unfold ruleObligations Py.get
  generalize por (rule.get "obligations") (.list []) = v
  cases v <;> rfl

/-- E1: one iteration of the rule loop from the point where the rule applies -/
theorem evaluate_step (rule rid : PyVal) (algo effect : String) (s : LoopSt) :
    Src.evaluate_step rule rid (.str algo) (.str effect) s.lastRuleId (.str s.decision) (.list s.obligations) (.str s.reason)
        (.bool s.anyDeny) s.denyRuleId (.bool s.anyPermit) s.permitRuleId (.list s.permitObls) =
      .list (encLoopSt (stepRule algo s (.applies effect rid (ruleObligations rule))).1 ++
             [.bool (stepRule algo s (.applies effect rid (ruleObligations rule))).2]) := by
  unfold Src.evaluate_step stepRule
  simp only [obligations_of, eq_str]
  by_cases h1 : (algo == "first-applicable") = true
  · by_cases h2 : (effect == "deny") = true <;> simp [h1, h2, encLoopSt]
  · by_cases h2 : (effect == "deny") = true
    · by_cases h3 : (algo == "deny-overrides") = true <;> simp [h1, h2, h3, encLoopSt]
    · by_cases h3 : (algo == "permit-overrides") = true <;> simp [h1, h2, h3, encLoopSt]

theorem condOutcome_not_applies (cx : CondCtx) (c : PyVal) (e : String) (r : PyVal) (o : List PyVal) :
    condOutcome cx c ≠ .ok (some (.applies e r o)) := by
  unfold condOutcome
  split
  · simp
  · split <;> simp

/-- when the model's `ruleOutcome` says a rule applies, it reports the id and obligations the source reads off the rule -/
theorem applies_reads_rule (cx : CondCtx) (rule : PyVal) (effect : String) (rid : PyVal) (obls : List PyVal)
    (h : ruleOutcome cx rule = .ok (.applies effect rid obls)) :
    rid = por (rule.get "id") (.str "") ∧ obls = ruleObligations rule := by
  unfold ruleOutcome at h
  split at h
  · cases h
  · split at h
    · cases h
    · split at h
      · cases h
      · rename_i out hc
        injection h with h
        subst h
        exact absurd hc (condOutcome_not_applies _ _ _ _ _)
      · split at h
        · cases h
        · injection h with h
          injection h with h1 h2 h3
          exact ⟨h2.symm, h3.symm⟩

/-- E1 stated on the model's own outcome: whenever `ruleOutcome` reports that the rule applies, the source's loop tail — run on
    the rule, the id the source reads (`rule.get("id") or ""`), the lowered effect and the encoded loop state — is `stepRule` -/
theorem evaluate_step_of_outcome (cx : CondCtx) (rule : PyVal) (algo effect : String) (rid : PyVal) (obls : List PyVal) (s : LoopSt)
    (h : ruleOutcome cx rule = .ok (.applies effect rid obls)) :
    Src.evaluate_step rule (por (Py.get rule "id") (.str "")) (.str algo) (.str effect) s.lastRuleId (.str s.decision)
        (.list s.obligations) (.str s.reason) (.bool s.anyDeny) s.denyRuleId (.bool s.anyPermit) s.permitRuleId (.list s.permitObls) =
      .list (encLoopSt (stepRule algo s (.applies effect rid obls)).1 ++ [.bool (stepRule algo s (.applies effect rid obls)).2]) := by
  obtain ⟨h1, h2⟩ := applies_reads_rule cx rule effect rid obls h
  subst h1 h2
  exact evaluate_step rule _ algo effect s

/-- E2: the finalisation after the rule loop and the dict `evaluate` returns -/
theorem evaluate_final (algo : String) (s : LoopSt) :
    Src.evaluate_final (.str algo) (.bool s.anyDeny) s.denyRuleId (.bool s.anyPermit) s.permitRuleId (.list s.permitObls)
        s.lastRuleId (.str s.decision) (.str s.reason) (.list s.obligations) = encRaw (finalise algo s) := by
  unfold Src.evaluate_final finalise
  simp only [eq_str, dictOf_five, truthy_bool, Py.isNone]
  by_cases h1 : (algo == "deny-overrides") = true
  · cases hd : s.anyDeny <;> cases hp : s.anyPermit <;> simp [h1, encRaw]
  · by_cases h2 : (algo == "permit-overrides") = true
    · cases hd : s.anyDeny <;> cases hp : s.anyPermit <;> simp [h1, h2, encRaw]
    · cases hn : s.lastRuleId.isNone <;> simp [h1, h2, encRaw]

theorem evaluate_final_represents (algo : String) (s : LoopSt) :
    Represents (Src.evaluate_final (.str algo) (.bool s.anyDeny) s.denyRuleId (.bool s.anyPermit) s.permitRuleId
        (.list s.permitObls) s.lastRuleId (.str s.decision) (.str s.reason) (.list s.obligations)) (finalise algo s) := by
  rw [evaluate_final]
  exact represents_encRaw _ rfl

/-! ### the whole rule loop, driven by the translated pieces -/

/-- what the four `reason = …; continue` statements at the head of the loop body do to the Python variables -/
def setReason (vars : List PyVal) (reason : String) : List PyVal :=
  match vars with
  | [l, d, o, _, ad, dr, ap, pr, po] => [l, d, o, .str reason, ad, dr, ap, pr, po]
  | v => v

def skipReason : Outcome → String
  | .actionMismatch => "action_mismatch"
  | .resourceMismatch => "resource_mismatch"
  | .condFalse => "condition_mismatch"
  | _ => "condition_type_mismatch"

/-- `for rule in rules:` of `evaluate` on the nine Python variables: the head of the body (does the rule apply? — `ruleOutcome`, whose
    `match_actions` / `match_resource` are themselves translated (C03 / C05 obligations) and whose `eval_condition` is hand-modelled)
    chooses between `reason = …; continue` and the TRANSLATED tail `Src.evaluate_step`, whose last component says whether it broke -/
def srcLoop (cx : CondCtx) (algo : String) : List PyVal → List PyVal → Except CondErr (List PyVal)
  | vars, [] => .ok vars
  | vars, rule :: rest =>
    match ruleOutcome cx rule with
    | .error e => .error e
    | .ok (.applies effect _ _) =>
      match vars with
      | [l, d, o, r, ad, dr, ap, pr, po] =>
        match Src.evaluate_step rule (por (Py.get rule "id") (.str "")) (.str algo) (.str effect) l d o r ad dr ap pr po with
        | .list [l', d', o', r', ad', dr', ap', pr', po', broke] =>
          if broke.truthy then .ok [l', d', o', r', ad', dr', ap', pr', po']
          else srcLoop cx algo [l', d', o', r', ad', dr', ap', pr', po'] rest
        | _ => .error (.raised "unexpected shape")
      | _ => .error (.raised "unexpected shape")
    | .ok out => srcLoop cx algo (setReason vars (skipReason out)) rest

/-- the statements after the loop, on the nine variables -/
def srcFinal (algo : String) : List PyVal → PyVal
  | [l, d, o, r, ad, dr, ap, pr, po] => Src.evaluate_final (.str algo) ad dr ap pr po l d r o
  | _ => .none

theorem setReason_enc (s : LoopSt) (x : String) : setReason (encLoopSt s) x = encLoopSt { s with reason := x } := rfl

/-- the loop over the Python variables, started from the encoding of a model state, ends in the encoding of the model's end state -/
theorem srcLoop_eq (cx : CondCtx) (algo : String) (rules : List PyVal) (s : LoopSt) :
    srcLoop cx algo (encLoopSt s) rules = (rulesLoop cx algo s rules).map encLoopSt := by
  induction rules generalizing s with
  | nil => rfl
  | cons rule rest ih =>
    unfold srcLoop rulesLoop
    cases h : ruleOutcome cx rule with
    | error e => rfl
    | ok out =>
      cases out with
      | applies effect rid obls =>
        simp only [encLoopSt]
        have hs := evaluate_step_of_outcome cx rule algo effect rid obls s h
        simp only [encLoopSt, List.cons_append, List.nil_append] at hs
        rw [hs]
        cases hb : (stepRule algo s (.applies effect rid obls)).2
        · simp only [PyVal.truthy, Bool.false_eq_true, if_false]
          exact ih _
        · simp only [PyVal.truthy, if_true]
          rfl
      | actionMismatch => simpa [stepRule, skipReason, setReason_enc] using ih _
      | resourceMismatch => simpa [stepRule, skipReason, setReason_enc] using ih _
      | condFalse => simpa [stepRule, skipReason, setReason_enc] using ih _
      | condTypeErr => simpa [stepRule, skipReason, setReason_enc] using ih _

/-- **`policy.evaluate`, loop and finalisation, with the translated source in the places it covers, returns the model's result**:
    from the literal initial values of the nine variables, the loop over `policy.get("rules") or []` followed by the statements after
    the loop yields exactly the dict that encodes `Rbacx.evaluate` — for every policy, request and algorithm name. -/
theorem evaluate_whole (cx : CondCtx) (dflt : String) (policy : PyVal) :
    (do let algo ← lowerField (policy.get "algorithm") dflt
        let vars ← srcLoop cx algo [.none, .str "deny", .list [], .str "no_match", .bool false, .none, .bool false, .none, .list []]
                      (rulesOf policy)
        pure (srcFinal algo vars)) = (evaluate cx dflt policy).map encRaw := by
  unfold evaluate
  cases lowerField (policy.get "algorithm") dflt with
  | error e => rfl
  | ok algo =>
    have h := srcLoop_eq cx algo (rulesOf policy) {}
    rw [encLoopSt_init] at h
    simp only [bind, Except.bind, pure, Except.pure, Except.map] at *
    rw [h]
    cases rulesLoop cx algo {} (rulesOf policy) with
    | error e => rfl
    | ok s => simp only [Except.map, srcFinal, encLoopSt, evaluate_final]

/-! ### `policyset.decide` -/

/-- the loop-carried variables of `decide`, in the order of the fragment's result tuple -/
structure PySetSt where
  lastRuleId : PyVal
  firstRes : PyVal
  firstPid : PyVal
  anyDeny : PyVal
  denyRes : PyVal
  denyPid : PyVal
  anyPermit : PyVal
  permitRes : PyVal
  permitPid : PyVal

def PySetSt.toList (p : PySetSt) : List PyVal :=
  [p.lastRuleId, p.firstRes, p.firstPid, p.anyDeny, p.denyRes, p.denyPid, p.anyPermit, p.permitRes, p.permitPid]

/-- the Python variables `p` hold the model state `s`: flags and last rule id literally, each `(…_result, …_pid)` pair either
    `(None, None)` or (a dict describing the stored `Raw`, the stored child id) -/
structure StRep (p : PySetSt) (s : SetSt) : Prop where
  lastRuleId : p.lastRuleId = s.lastRuleId
  anyDeny : p.anyDeny = .bool s.anyDeny
  anyPermit : p.anyPermit = .bool s.anyPermit
  first : SlotRep p.firstRes p.firstPid s.first
  deny : SlotRep p.denyRes p.denyPid s.deny
  permit : SlotRep p.permitRes p.permitPid s.permit

/-- the values the source gives these variables before the loop -/
theorem stRep_init : StRep ⟨.none, .none, .none, .bool false, .none, .none, .bool false, .none, .none⟩ {} :=
  ⟨rfl, rfl, rfl, ⟨rfl, rfl⟩, ⟨rfl, rfl⟩, ⟨rfl, rfl⟩⟩

theorem slot_isNone {d p : PyVal} {o : Option (Raw × PyVal)} (h : SlotRep d p o) : d.isNone = o.isNone := by
  cases o with
  | none => rw [h.1]; rfl
  | some x => obtain ⟨r, pid⟩ := x; exact h.1.isNone_eq

/-- `_is_applicable(res)` on any dict describing `r` -/
theorem is_applicable_of {res : PyVal} {r : Raw} (h : Represents res r) : Src.is_applicable res = .bool (isApplicable r) := by
  unfold Src.is_applicable
  simp only [h.last_rule_id, h.rule_id, h.reason]
  exact is_applicable_aux r.lastRuleId r.ruleId r.reason

/-- `if isinstance(rid, str) and rid:` -/
theorem note_cond (v : PyVal) :
    (Py.pand (Py.isInstance v "str") v).truthy = (match v with | .str x => x != "" | _ => false) := by
  cases v <;> simp [Py.pand, Py.isInstance, PyVal.isStr, PyVal.truthy]

theorem strOf_decision (d : String) : Py.strOf (por (.str d) (.str "")) = .str d := by
  by_cases h : d = ""
  · subst h; rfl
  · have : (PyVal.str d).truthy = true := by simp [PyVal.truthy, h]
    simp [por, this, Py.strOf]

theorem noteRuleId_eq (s : SetSt) (r : Raw) :
    noteRuleId s r = if (match por r.lastRuleId r.ruleId with | .str x => x != "" | _ => false) = true
      then { s with lastRuleId := por r.lastRuleId r.ruleId } else s := by
  unfold noteRuleId Raw.rid
  cases por r.lastRuleId r.ruleId <;> simp

/-- closes a leaf of `decide_step`: the tuple on the left names the new Python state; its six `StRep` fields are literal -/
local macro "close_step" : tactic => `(tactic|
  (refine ⟨⟨_, _, _, _, _, _, _, _, _⟩, (by simp only [PySetSt.toList, List.cons_append, List.nil_append]; exact rfl), ?_⟩
   refine ⟨?_, ?_, ?_, ?_, ?_, ?_⟩ <;> first | rfl | assumption | exact ⟨‹Represents _ _›, rfl⟩))

/-- D1: one iteration of the child loop from the point where the child's result is known -/
theorem decide_step (algo : String) (pid res : PyVal) (r : Raw) (p : PySetSt) (s : SetSt)
    (hres : Represents res r) (hst : StRep p s) :
    ∃ p' : PySetSt,
      Src.decide_step res (.str algo) pid p.lastRuleId p.firstRes p.firstPid p.anyDeny p.denyRes p.denyPid p.anyPermit
          p.permitRes p.permitPid = .list (p'.toList ++ [.bool (stepChild algo s pid r).2]) ∧
      StRep p' (stepChild algo s pid r).1 := by
  obtain ⟨hl, hd, hp, hfirst, hdeny, hpermit⟩ := hst
  unfold Src.decide_step
  simp only [is_applicable_of hres, hres.last_rule_id, hres.rule_id, hres.decision, strOf_decision, note_cond, eq_str, Py.pnot,
    truthy_bool, Py.isNone, slot_isNone hdeny, slot_isNone hpermit]
  rw [show stepChild algo s pid r = combineChild algo (if (match por r.lastRuleId r.ruleId with | .str x => x != "" | _ => false) = true
        then { s with lastRuleId := por r.lastRuleId r.ruleId } else s) pid r from by rw [stepChild, noteRuleId_eq]]
  unfold combineChild
  cases hb : (match por r.lastRuleId r.ruleId with | .str x => x != "" | _ => false) <;>
    simp only [if_true, if_false, Bool.false_eq_true] <;>
    cases happ : isApplicable r <;>
    simp only [if_true, if_false, Bool.false_eq_true, Bool.not_true, Bool.not_false]
  all_goals first
    | close_step
    | (by_cases h1 : (algo == "first-applicable") = true <;> simp only [h1, if_true, if_false, Bool.false_eq_true]
       · close_step
       · by_cases h4 : (r.decision == "deny") = true <;> simp only [h4, if_true, if_false, Bool.false_eq_true]
         · by_cases hsd : s.deny.isNone = true <;> by_cases h2 : (algo == "deny-overrides") = true <;>
             simp only [hsd, h2, if_true, if_false, Bool.false_eq_true] <;> close_step
         · by_cases h5 : (r.decision == "permit") = true <;> simp only [h5, if_true, if_false, Bool.false_eq_true]
           · by_cases hsp : s.permit.isNone = true <;> by_cases h3 : (algo == "permit-overrides") = true <;>
               simp only [hsp, h3, if_true, if_false, Bool.false_eq_true] <;> close_step
           · close_step)

theorem por_reason (x : String) : por (.str x) (.str "matched") = .str (if x == "" then "matched" else x) := by
  by_cases h : x = ""
  · subst h; rfl
  · have : (PyVal.str x).truthy = true := by simp [PyVal.truthy, h]
    simp [por, this, h]

theorem list_iter_por (xs : List PyVal) : PyVal.list (Py.iter (por (.list xs) (.list []))) = .list xs := by
  cases xs <;> rfl

/-- the three ways `decide` builds its result -/
theorem no_match_represents (l : PyVal) :
    Represents (.dict [("decision", .str "deny"), ("reason", .str "no_match"), ("rule_id", .none), ("last_rule_id", l),
      ("policy_id", .none), ("obligations", .list [])]) (noMatch l) := represents_encRawSet (noMatch l)

theorem deny_represents {d : PyVal} {r : Raw} (h : Represents d r) (pid : PyVal) :
    Represents (.dict [("decision", .str "deny"), ("reason", .str "explicit_deny"),
      ("rule_id", por (Py.get d "last_rule_id") (Py.get d "rule_id")), ("last_rule_id", por (Py.get d "last_rule_id") (Py.get d "rule_id")),
      ("policy_id", pid), ("obligations", .list (Py.iter (por (Py.get d "obligations") (.list []))))]) (denyOut r pid) := by
  rw [h.last_rule_id, h.rule_id, h.obligations, list_iter_por]
  exact represents_encRawSet (denyOut r pid)

theorem permit_represents {d : PyVal} {r : Raw} (h : Represents d r) (pid : PyVal) :
    Represents (Py.setItem (Py.setItem (Py.dictCopy d) "policy_id" pid) "reason"
      (por (Py.get (Py.setItem (Py.dictCopy d) "policy_id" pid) "reason") (.str "matched"))) (permitOut r pid) := by
  rw [h.copy, (h.setPolicyId pid).reason, por_reason]
  exact (h.setPolicyId pid).setReason _

theorem first_represents {d : PyVal} {r : Raw} (h : Represents d r) (pid : PyVal) :
    Represents (Py.setItem (Py.dictCopy d) "policy_id" pid) { r with policyId := pid } := by
  rw [h.copy]
  exact h.setPolicyId pid

/-- why `Represents` and not one encoding: `dict(res); out["policy_id"] = pid` keeps the key where a child SET had it and appends
    it where a child POLICY (five keys) had none -/
theorem copy_of_set_result (r : Raw) (pid : PyVal) :
    Py.setItem (Py.dictCopy (encRawSet r)) "policy_id" pid = encRawSet { r with policyId := pid } := by
  simp [encRawSet, Py.dictCopy, Py.setItem, Py.setKV]

theorem copy_of_policy_result (r : Raw) (pid : PyVal) :
    Py.setItem (Py.dictCopy (encRaw r)) "policy_id" pid =
      .dict [("decision", .str r.decision), ("reason", .str r.reason), ("rule_id", r.ruleId), ("last_rule_id", r.lastRuleId),
             ("obligations", .list r.obligations), ("policy_id", pid)] := by
  simp [encRaw, Py.dictCopy, Py.setItem, Py.setKV]

/-- D2: everything after the child loop — the dict `decide` returns describes the model's `finaliseSet` -/
theorem decide_final (algo : String) (p : PySetSt) (s : SetSt) (hst : StRep p s) :
    Represents (Src.decide_final (.str algo) p.firstRes p.firstPid p.lastRuleId p.anyDeny p.denyRes p.denyPid p.anyPermit
      p.permitRes p.permitPid) (finaliseSet algo s) := by
  obtain ⟨hl, hd, hp, hfirst, hdeny, hpermit⟩ := hst
  unfold Src.decide_final finaliseSet pick
  simp only [eq_str, dictOf_six, hl, hd, hp, Py.isNotNone, truthy_bool, slot_isNone hfirst, slot_isNone hdeny,
    slot_isNone hpermit]
  by_cases h1 : (algo == "first-applicable") = true
  · simp only [h1, if_true]
    cases hs : s.first with
    | none => simpa using no_match_represents _
    | some x =>
      obtain ⟨r, pid⟩ := x
      rw [hs] at hfirst
      simpa [hfirst.2] using first_represents hfirst.1 pid
  · have pb : ∀ b c : Bool, (Py.pand (.bool b) (.bool c)).truthy = (b && c) := by intro b c; cases b <;> rfl
    simp only [h1, if_false, Bool.false_eq_true, pb]
    revert hdeny hpermit
    rcases s.deny with _ | ⟨rd, pd⟩ <;> rcases s.permit with _ | ⟨rp, pp⟩ <;> intro hdeny hpermit <;>
      by_cases h2 : (algo == "deny-overrides") = true <;> cases s.anyDeny <;> cases s.anyPermit <;>
      simp only [h2, Bool.and_true, Bool.and_false, Bool.true_and, Bool.false_and, Option.isNone, Bool.not_true, Bool.not_false,
        if_true, if_false, Bool.false_eq_true] <;>
      first
        | exact no_match_represents _
        | (rw [hdeny.2]; exact deny_represents hdeny.1 _)
        | (rw [hpermit.2]; exact permit_represents hpermit.1 _)

/-! ### the whole child loop of `decide`, driven by the translated pieces -/

/-- `for pol in policies:` of `decide` on the nine Python variables, the children's ids and results (`pol.get("id")`,
    `_decide_single(pol, env)`) being given: the TRANSLATED body `Src.decide_step`, whose last component says whether it broke -/
def srcSetLoop (algo : String) : PySetSt → List (PyVal × PyVal) → PySetSt
  | p, [] => p
  | p, (pid, res) :: rest =>
    match Src.decide_step res (.str algo) pid p.lastRuleId p.firstRes p.firstPid p.anyDeny p.denyRes p.denyPid p.anyPermit
        p.permitRes p.permitPid with
    | .list [a, b, c, d, e, f, g, h, i, broke] =>
      if broke.truthy then ⟨a, b, c, d, e, f, g, h, i⟩ else srcSetLoop algo ⟨a, b, c, d, e, f, g, h, i⟩ rest
    | _ => p

/-- the model's child loop on results that are already there -/
def setLoop (algo : String) : SetSt → List (PyVal × Raw) → SetSt
  | s, [] => s
  | s, (pid, r) :: rest =>
    if (stepChild algo s pid r).2 then (stepChild algo s pid r).1 else setLoop algo (stepChild algo s pid r).1 rest

/-- two lists related element by element -/
inductive Rel2 {α β : Type} (R : α → β → Prop) : List α → List β → Prop
  | nil : Rel2 R [] []
  | cons {a b as bs} : R a b → Rel2 R as bs → Rel2 R (a :: as) (b :: bs)

/-- simulation over the whole loop: child results that describe the model's child results, variables that hold a model state ⇒ the
    variables after the loop hold the model's state after the loop -/
theorem srcSetLoop_rep (algo : String) (pys : List (PyVal × PyVal)) (ms : List (PyVal × Raw))
    (hres : Rel2 (fun x y => x.1 = y.1 ∧ Represents x.2 y.2) pys ms) (p : PySetSt) (s : SetSt) (hst : StRep p s) :
    StRep (srcSetLoop algo p pys) (setLoop algo s ms) := by
  induction hres generalizing p s with
  | nil => exact hst
  | @cons x y xs ys hxy _ ih =>
    obtain ⟨pid, res⟩ := x
    obtain ⟨pid', r⟩ := y
    obtain ⟨hpid, hrep⟩ := hxy
    simp only at hpid hrep
    subst hpid
    obtain ⟨p', hstep, hst'⟩ := decide_step algo pid res r p s hrep hst
    unfold srcSetLoop setLoop
    rw [hstep]
    simp only [PySetSt.toList, List.cons_append, List.nil_append]
    cases hb : (stepChild algo s pid r).2
    · simp only [PyVal.truthy, Bool.false_eq_true, if_false]
      exact ih _ _ hst'
    · simp only [PyVal.truthy, if_true]
      exact hst'

/-- … and what `decide` then returns describes what the model returns: the whole of `policyset.decide` after `algo`/`policies` have
    been read, with the translated source in the places it covers -/
theorem decide_whole (algo : String) (pys : List (PyVal × PyVal)) (ms : List (PyVal × Raw))
    (hres : Rel2 (fun x y => x.1 = y.1 ∧ Represents x.2 y.2) pys ms) :
    let p := srcSetLoop algo ⟨.none, .none, .none, .bool false, .none, .none, .bool false, .none, .none⟩ pys
    Represents (Src.decide_final (.str algo) p.firstRes p.firstPid p.lastRuleId p.anyDeny p.denyRes p.denyPid p.anyPermit
      p.permitRes p.permitPid) (finaliseSet algo (setLoop algo {} ms)) :=
  decide_final algo _ _ (srcSetLoop_rep algo pys ms hres _ _ stRep_init)

/-- the model's recursive child loop is `setLoop` on the children's results (when every child evaluates) -/
theorem childrenLoop_eq_setLoop (cx : CondCtx) (interpDflt setDflt algo : String) (children : List PTree) (rs : List Raw)
    (h : children.mapM (decideTree cx interpDflt setDflt) = .ok rs) (s : SetSt) :
    childrenLoop cx interpDflt setDflt algo s children =
      .ok (setLoop algo s ((children.map fun c => c.doc.get "id").zip rs)) := by
  induction children generalizing rs s with
  | nil =>
    simp only [List.mapM_nil, pure, Except.pure] at h
    cases h
    simp [childrenLoop, setLoop]
  | cons c cs ih =>
    rw [List.mapM_cons] at h
    cases hc : decideTree cx interpDflt setDflt c with
    | error e => simp [hc, bind, Except.bind] at h
    | ok r =>
      cases hcs : cs.mapM (decideTree cx interpDflt setDflt) with
      | error e => simp [hc, hcs, bind, Except.bind] at h
      | ok rs' =>
        simp only [hc, hcs, bind, Except.bind, pure, Except.pure] at h
        cases h
        rw [childrenLoop, hc]
        simp only [List.map_cons, List.zip_cons_cons, setLoop]
        generalize stepChild algo s (c.doc.get "id") r = st
        obtain ⟨s', b⟩ := st
        cases b
        · simpa using ih rs' hcs s'
        · simp

end Rbacx.Translated

#print axioms Rbacx.Translated.evaluate_step
#print axioms Rbacx.Translated.evaluate_step_of_outcome
#print axioms Rbacx.Translated.evaluate_final
#print axioms Rbacx.Translated.evaluate_final_represents
#print axioms Rbacx.Translated.srcLoop_eq
#print axioms Rbacx.Translated.evaluate_whole
#print axioms Rbacx.Translated.decide_step
#print axioms Rbacx.Translated.decide_final
#print axioms Rbacx.Translated.srcSetLoop_rep
#print axioms Rbacx.Translated.decide_whole
#print axioms Rbacx.Translated.childrenLoop_eq_setLoop
#print axioms Rbacx.Translated.stRep_init
#print axioms Rbacx.Translated.encLoopSt_init
#print axioms Rbacx.Translated.copy_of_set_result
#print axioms Rbacx.Translated.copy_of_policy_result
