import Rbacx.Generated
import Rbacx.Proofs.EvaluatorsTranslated
import Rbacx.Run.C03_translated
import Rbacx.Run.C04_translated
import Rbacx.Run.C05_translated
set_option linter.unusedSimpArgs false
namespace Rbacx.Translated
open Rbacx Rbacx.Py Rbacx.PyE Rbacx.Generated PyVal

abbrev St9 := PyVal × PyVal × PyVal × PyVal × PyVal × PyVal × PyVal × PyVal × PyVal

def encSt (s : LoopSt) : St9 :=
  (.str s.reason, s.lastRuleId, .str s.decision, .list s.obligations, .bool s.anyDeny, s.denyRuleId, .bool s.anyPermit,
   s.permitRuleId, .list s.permitObls)

theorem strict_arg (b : Bool) : (if (PyVal.bool b).truthy = true then PyVal.bool true else PyVal.none) = Py.strictParam b := by
  cases b <;> rfl

/-- `strict=True if _is_strict(env) else None` -/
theorem strict_arg_src (env : PyVal) :
    (if (Src.is_strict env).truthy = true then PyVal.bool true else PyVal.none) = Py.strictParam (isStrict env) := by
  rw [is_strict]; cases isStrict env <;> rfl

theorem strict_arg' (b : Bool) : (if b = true then PyVal.bool true else PyVal.none) = Py.strictParam b := by
  cases b <;> rfl

/-- closes the goals of the rule-loop body once the rule is known to apply with `effect`: the three algorithms × deny / permit -/
local macro "tail_cases" algo:ident effect:ident : tactic => `(tactic|
  (by_cases h1 : $algo = "first-applicable"
   · by_cases h2 : $effect = "deny" <;> simp [h1, h2, stepRule, ctlOf, encSt, Except.map, PyE.eq_str]
   · by_cases h2 : $effect = "deny"
     · by_cases h3 : $algo = "deny-overrides" <;> simp [h1, h2, h3, stepRule, ctlOf, encSt, Except.map, PyE.eq_str]
     · by_cases h3 : $algo = "permit-overrides" <;> simp [h1, h2, h3, stepRule, ctlOf, encSt, Except.map, PyE.eq_str]))

theorem evaluate_src (cx : CondCtx) (policy algorithm : PyVal) (fuel : Nat)
    (halg : algorithm.truthy = false) (hpol : policy.isDict = true) (henv : cx.env.isDict = true)
    (hrules : ∀ r ∈ rulesOf policy, r.isDict = true) (hfuel : policy.size < fuel) :
    Src.evaluate cx.o noAttr (parseDtExt cx.o) (relExt cx) policy cx.env algorithm fuel =
      (Rbacx.evaluate cx "deny-overrides" policy).map encRaw := by
  unfold Src.evaluate Rbacx.evaluate
  simp only [halg, Bool.false_eq_true, if_false, getE_isDict hpol, bind_ok, lowerE_por]
  cases hlow : lowerField (policy.get "algorithm") "deny-overrides" with
  | error e => rfl
  | ok algo =>
    simp only [Except.map, bind_ok, listOr_bind]
    have hro : rulesOf policy = match (policy.get "rules").por (list []) with | .list rs => rs | _ => [] := rfl
    cases hr : (policy.get "rules").por (list []) with
    | list rs =>
      rw [hr] at hro
      simp only [PyE.truthy_pnot, truthy_isInstance_list, PyVal.isList, Bool.not_true, Bool.false_eq_true, if_false, iterE_list, bind_ok]
      rw [show (str "no_match", PyVal.none, str "deny", list [], PyVal.bool false, PyVal.none, PyVal.bool false, PyVal.none, list [])
            = encSt {} from rfl]
      rw [forLoop_sim encSt _ (fun s r => (ruleOutcome cx r).map (stepRule algo s)) rs ?hbody {}]
      case hbody =>
        intro s r hrs
        have hrd : r.isDict = true := hrules r (by rw [hro]; exact hrs)
        have hc : (r.get "condition").size < fuel := by
          have h1 := size_get_le r "condition"
          have h2 := size_rule_lt policy r (by rw [hro]; exact hrs)
          omega
        simp only [strict_arg_src]
        simp only [encSt, getE_isDict hrd, getE_isDict henv, bind_ok, match_actions, match_resource]
        simp only [PyE.truthy_pnot, truthy_bool, eval_condition cx _ fuel hc, tryBind_cte, lowerE_por, listOr_obligations, PyE.eq_str]
        unfold ruleOutcome condOutcome
        cases hma : matchActions r ((cx.env.get "action").por (str ""))
        · simp [stepRule, ctlOf, encSt, Except.map]
        · cases hmr : matchResource cx.o (isStrict cx.env) ((r.get "resource").por (dict [])) ((cx.env.get "resource").por (dict []))
          · simp [stepRule, ctlOf, encSt, Except.map]
          · simp only [Bool.not_true, Bool.false_eq_true, if_false, Py.isNotNone, truthy_bool]
            by_cases hcn : (r.get "condition").isNone = true
            rotate_left
            · have hcn' : (r.get "condition").isNone = false := by simpa using hcn
              simp only [hcn', Bool.not_false, if_true, Bool.false_eq_true, if_false]
              cases hev : evalCond cx (condOf (r.get "condition")) with
              | error e =>
                cases e <;> simp [stepRule, ctlOf, encSt, Except.map]
              | ok b =>
                cases b
                · simp [stepRule, ctlOf, encSt, Except.map, Py.pnot, PyVal.truthy]
                · simp only [Except.map, bind_ok, Py.pnot, truthy_bool, Bool.not_true, Bool.false_eq_true, if_false]
                  cases hlf : lowerField (r.get "effect") "permit" with
                  | error e => rfl
                  | ok effect =>
                    simp only [bind_ok]
                    tail_cases algo effect
            · simp only [hcn, Bool.not_true, Bool.false_eq_true, if_false, if_true]
              cases hlf : lowerField (r.get "effect") "permit" with
              | error e => rfl
              | ok effect =>
                simp only [bind_ok]
                tail_cases algo effect
      have hro' : rulesOf policy = rs := hro
      simp only [hro', Bind.bind, Except.bind, Pure.pure, Except.pure]
      rw [rulesLoop_eq_loopM]
      cases loopM (fun s r => (ruleOutcome cx r).map (stepRule algo s)) {} rs with
      | error e => rfl
      | ok s =>
        simp only [Except.map, bind_ok, encSt, PyE.eq_str, truthy_bool, Py.isNone, dictOf_five]
        unfold finalise
        by_cases h1 : (algo == "deny-overrides") = true
        · cases hd : s.anyDeny <;> cases hp : s.anyPermit <;> simp [h1, encRaw]
        · by_cases h2 : (algo == "permit-overrides") = true
          · cases hd : s.anyDeny <;> cases hp : s.anyPermit <;> simp [h1, h2, encRaw]
          · cases hn : s.lastRuleId.isNone <;> simp [h1, h2, encRaw]
    | _ =>
      -- `rules` is not a list: the early return is the model's finalisation of the untouched initial state
      have hro' : rulesOf policy = [] := by rw [hro, hr]
      simp only [hro', Bind.bind, Except.bind, Pure.pure, Except.pure, rulesLoop, PyE.truthy_pnot, truthy_isInstance_list, PyVal.isList,
        Bool.not_false, if_true, dictOf_five]
      unfold finalise
      by_cases h1 : (algo == "deny-overrides") = true
      · simp [h1, encRaw]
      · by_cases h2 : (algo == "permit-overrides") = true <;> simp [h1, h2, encRaw, PyVal.isNone]

end Rbacx.Translated
