import Rbacx.Generated
import Rbacx.Proofs.EvaluatorsTranslated
import Rbacx.Run.C03_translated
import Rbacx.Run.C04_translated
import Rbacx.Run.C05_translated
/-!
  Per-run obligation (C02): the two REFERENCE EVALUATORS AS WHOLES, as they are written NOW.  harness/pytolean_except.py (plugin
  `extractors/src_translation_evaluators.py`) translates `policy.evaluate` and `policyset._decide_single` / `decide` statement by
  statement, in exception-passing style, into `Rbacx.Generated.Src.evaluate` / `Src.decide_single` / `Src.decide` — prologue (default
  algorithm, initial values, `rules` / `policies` not a list), the loops with `break` / `continue` (`PyE.forLoop` on the tuple of the nine
  carried variables), the head of the rule loop (`rule.get("id")`, the action and resource tests, `try … except ConditionTypeError`
  around `eval_condition`, the lowered effect), the recursive dispatch of `_decide_single` (a `mutual` block, structural recursion on a
  budget), finalisations and returned dicts.  The functions they call are the translations the other obligations are about, and their
  theorems are used here (imported): `Src.match_actions` (C03_translated), `Src.match_resource` / `Src.is_strict` (C05_translated),
  `Src.eval_condition` with its externals `getattr` = absent, `_parse_dt` = the oracle's, `rel` branch = the model's (C04_translated).

  Proved (nothing of the two functions is hand-modelled):

  * `evaluate_src` — `Src.evaluate … policy env algorithm fuel = (Rbacx.evaluate cx "deny-overrides" policy).map encRaw`: the same dict
    (five keys, source order) or the same exception (`ConditionTypeError` cannot escape; `AttributeError` of `.lower()` on a non-string
    algorithm / effect, whatever a condition raises besides ConditionTypeError).  The default algorithm is the LITERAL of the source
    text.  Hypotheses: `algorithm` is falsy (`None`: how `_decide_single` and the engine call it), the policy, its rules and `env` are
    dicts (on anything else CPython raises AttributeError at `.get` and the model, whose `get` answers `None`, does not: outside the
    model's domain, DESIGN §2.1), `policy.size < fuel`.
  * `decide_single_src`, `decide_src` — what `Src.decide_single` / `Src.decide` return `Represents` (Proofs/RawDict.lean: same answers
    to `.get` for the six keys; an equality of dicts would be false, the key order depends on the kind of child) what `decideTree cx
    "deny-overrides" "deny-overrides"` returns for the tree of the document, or they raise the exception the model raises; by
    induction over the tree (`decide_node`: one set, given its children), `evaluate_src` at the leaves.  Hypotheses: every document
    of the tree and every rule is a dict (`DictTree`), `env` is a dict, the budget exceeds the size of the document.

  What stays outside: the three externals of `eval_condition`; `match_resource` is the TOTAL translation of C05 (for an
  `env["resource"]` that is a truthy non-dict CPython raises AttributeError inside it and neither the model nor this translation does).
-/
set_option linter.unusedSimpArgs false
namespace Rbacx.Translated
open Rbacx Rbacx.Py Rbacx.PyE Rbacx.Generated PyVal

/-! ### `policy.evaluate` -/

/-- the nine Python variables the rule loop of `evaluate` carries, in the order of the generated tuple: reason, last_rule_id,
    decision, obligations, any_deny, deny_rule_id, any_permit, permit_rule_id, permit_obligations -/
abbrev St9 := PyVal × PyVal × PyVal × PyVal × PyVal × PyVal × PyVal × PyVal × PyVal

def encSt (s : LoopSt) : St9 :=
  (.str s.reason, s.lastRuleId, .str s.decision, .list s.obligations, .bool s.anyDeny, s.denyRuleId, .bool s.anyPermit,
   s.permitRuleId, .list s.permitObls)

theorem strict_arg (b : Bool) : (if (PyVal.bool b).truthy = true then PyVal.bool true else PyVal.none) = Py.strictParam b := by
  cases b <;> rfl

/-- `strict=True if _is_strict(env) else None` -/
theorem strict_arg_src (env : PyVal) :
    (if (Src.is_strict env).truthy = true then PyVal.bool true else PyVal.none) = Py.strictParam (isStrict env) := by
  rw [is_strict]; cases isStrict env <;> rfl

theorem strict_arg' (b : Bool) : (if b = true then PyVal.bool true else PyVal.none) = Py.strictParam b := by
  cases b <;> rfl

/-- closes the goals of the rule-loop body once the rule is known to apply with `effect`: the three algorithms × deny / permit -/
local macro "tail_cases" algo:ident effect:ident : tactic => `(tactic|
  (by_cases h1 : $algo = "first-applicable"
   · by_cases h2 : $effect = "deny" <;> simp [h1, h2, stepRule, ctlOf, encSt, Except.map, PyE.eq_str]
   · by_cases h2 : $effect = "deny"
     · by_cases h3 : $algo = "deny-overrides" <;> simp [h1, h2, h3, stepRule, ctlOf, encSt, Except.map, PyE.eq_str]
     · by_cases h3 : $algo = "permit-overrides" <;> simp [h1, h2, h3, stepRule, ctlOf, encSt, Except.map, PyE.eq_str]))

/-- **`policy.evaluate` as the source has it now, the whole function** (see the header for the hypotheses) -/
theorem evaluate_src (cx : CondCtx) (policy algorithm : PyVal) (fuel : Nat)
    (halg : algorithm.truthy = false) (hpol : policy.isDict = true) (henv : cx.env.isDict = true)
    (hrules : ∀ r ∈ rulesOf policy, r.isDict = true) (hfuel : policy.size < fuel) :
    Src.evaluate cx.o noAttr (parseDtExt cx.o) (relExt cx) policy cx.env algorithm fuel =
      (Rbacx.evaluate cx "deny-overrides" policy).map encRaw := by
  unfold Src.evaluate Rbacx.evaluate
  simp only [halg, Bool.false_eq_true, if_false, getE_isDict hpol, bind_ok, lowerE_por]
  cases hlow : lowerField (policy.get "algorithm") "deny-overrides" with
  | error e => rfl
  | ok algo =>
    simp only [Except.map, bind_ok, listOr_bind]
    have hro : rulesOf policy = match (policy.get "rules").por (list []) with | .list rs => rs | _ => [] := rfl
    cases hr : (policy.get "rules").por (list []) with
    | list rs =>
      rw [hr] at hro
      simp only [PyE.truthy_pnot, truthy_isInstance_list, PyVal.isList, Bool.not_true, Bool.false_eq_true, if_false, iterE_list, bind_ok]
      rw [show (str "no_match", PyVal.none, str "deny", list [], PyVal.bool false, PyVal.none, PyVal.bool false, PyVal.none, list [])
            = encSt {} from rfl]
      rw [forLoop_sim encSt _ (fun s r => (ruleOutcome cx r).map (stepRule algo s)) rs ?hbody {}]
      case hbody =>
        intro s r hrs
        have hrd : r.isDict = true := hrules r (by rw [hro]; exact hrs)
        have hc : (r.get "condition").size < fuel := by
          have h1 := size_get_le r "condition"
          have h2 := size_rule_lt policy r (by rw [hro]; exact hrs)
          omega
        simp only [strict_arg_src]
        simp only [encSt, getE_isDict hrd, getE_isDict henv, bind_ok, match_actions, match_resource]
        simp only [PyE.truthy_pnot, truthy_bool, eval_condition cx _ fuel hc, tryBind_cte, lowerE_por, listOr_obligations, PyE.eq_str]
        unfold ruleOutcome condOutcome
        cases hma : matchActions r ((cx.env.get "action").por (str ""))
        · simp [stepRule, ctlOf, encSt, Except.map]
        · cases hmr : matchResource cx.o (isStrict cx.env) ((r.get "resource").por (dict [])) ((cx.env.get "resource").por (dict []))
          · simp [stepRule, ctlOf, encSt, Except.map]
          · simp only [Bool.not_true, Bool.false_eq_true, if_false, Py.isNotNone, truthy_bool]
            by_cases hcn : (r.get "condition").isNone = true
            rotate_left
            · have hcn' : (r.get "condition").isNone = false := by simpa using hcn
              simp only [hcn', Bool.not_false, if_true, Bool.false_eq_true, if_false]
              cases hev : evalCond cx (condOf (r.get "condition")) with
              | error e =>
                cases e <;> simp [stepRule, ctlOf, encSt, Except.map]
              | ok b =>
                cases b
                · simp [stepRule, ctlOf, encSt, Except.map, Py.pnot, PyVal.truthy]
                · simp only [Except.map, bind_ok, Py.pnot, truthy_bool, Bool.not_true, Bool.false_eq_true, if_false]
                  cases hlf : lowerField (r.get "effect") "permit" with
                  | error e => rfl
                  | ok effect =>
                    simp only [bind_ok]
                    tail_cases algo effect
            · simp only [hcn, Bool.not_true, Bool.false_eq_true, if_false, if_true]
              cases hlf : lowerField (r.get "effect") "permit" with
              | error e => rfl
              | ok effect =>
                simp only [bind_ok]
                tail_cases algo effect
      have hro' : rulesOf policy = rs := hro
      simp only [hro', Bind.bind, Except.bind, Pure.pure, Except.pure]
      rw [rulesLoop_eq_loopM]
      cases loopM (fun s r => (ruleOutcome cx r).map (stepRule algo s)) {} rs with
      | error e => rfl
      | ok s =>
        simp only [Except.map, bind_ok, encSt, PyE.eq_str, truthy_bool, Py.isNone, dictOf_five]
        unfold finalise
        by_cases h1 : (algo == "deny-overrides") = true
        · cases hd : s.anyDeny <;> cases hp : s.anyPermit <;> simp [h1, encRaw]
        · by_cases h2 : (algo == "permit-overrides") = true
          · cases hd : s.anyDeny <;> cases hp : s.anyPermit <;> simp [h1, h2, encRaw]
          · cases hn : s.lastRuleId.isNone <;> simp [h1, h2, encRaw]
    | _ =>
      -- `rules` is not a list: the early return is the model's finalisation of the untouched initial state
      have hro' : rulesOf policy = [] := by rw [hro, hr]
      simp only [hro', Bind.bind, Except.bind, Pure.pure, Except.pure, rulesLoop, PyE.truthy_pnot, truthy_isInstance_list, PyVal.isList,
        Bool.not_false, if_true, dictOf_five]
      unfold finalise
      by_cases h1 : (algo == "deny-overrides") = true
      · simp [h1, encRaw]
      · by_cases h2 : (algo == "permit-overrides") = true <;> simp [h1, h2, encRaw, PyVal.isNone]

/-- off the domain, stated on the source: a policy that is not a dict makes `evaluate` raise AttributeError (at `policy.get`) -/
theorem evaluate_src_nondict (cx : CondCtx) (policy algorithm : PyVal) (fuel : Nat) (halg : algorithm.truthy = false)
    (hpol : policy.isDict = false) :
    Src.evaluate cx.o noAttr (parseDtExt cx.o) (relExt cx) policy cx.env algorithm fuel = .error (.raised "AttributeError") := by
  unfold Src.evaluate
  simp only [halg, Bool.false_eq_true, if_false, getE_nondict hpol, bind_error]

/-! ### `policyset._decide_single` / `decide` -/

/-- the Python variables `p` of `decide`'s child loop (the tuple `PyE.forLoop` carries, in the order of the generated text:
    last_rule_id, first_applicable_result, first_applicable_pid, any_deny, deny_result, deny_pid, any_permit, permit_result,
    permit_pid) hold the model state `s` -/
structure StRep (p : St9) (s : SetSt) : Prop where
  lastRuleId : p.1 = s.lastRuleId
  first : SlotRep p.2.1 p.2.2.1 s.first
  anyDeny : p.2.2.2.1 = .bool s.anyDeny
  deny : SlotRep p.2.2.2.2.1 p.2.2.2.2.2.1 s.deny
  anyPermit : p.2.2.2.2.2.2.1 = .bool s.anyPermit
  permit : SlotRep p.2.2.2.2.2.2.2.1 p.2.2.2.2.2.2.2.2 s.permit

theorem stRep_init : StRep (PyVal.none, PyVal.none, PyVal.none, PyVal.bool false, PyVal.none, PyVal.none, PyVal.bool false,
    PyVal.none, PyVal.none) {} :=
  ⟨rfl, ⟨rfl, rfl⟩, rfl, ⟨rfl, rfl⟩, rfl, ⟨rfl, rfl⟩⟩

/-- `_is_applicable(res)` on any dict describing `r` -/
theorem is_applicable_of {res : PyVal} {r : Raw} (h : Represents res r) : Src.is_applicable res = .bool (isApplicable r) := by
  unfold Src.is_applicable
  simp only [h.last_rule_id, h.rule_id, h.reason]
  exact is_applicable_aux r.lastRuleId r.ruleId r.reason

/-- closes a leaf of the child-loop body: the tuple names the new Python state; its six `StRep` fields are literal -/
local macro "close_step" : tactic => `(tactic|
  (refine ⟨(_, _, _, _, _, _, _, _, _), rfl, ?_⟩
   refine ⟨?_, ?_, ?_, ?_, ?_, ?_⟩ <;> first | rfl | assumption | exact ⟨‹Represents _ _›, rfl⟩))

/-- ONE SET, given its children: when `_decide_single` on every child describes the model's result for the child's tree (or raises
    what the model raises), `decide` on the set describes the model's result for the set — the child loop is simulated through `StRep`
    (`forLoop_rel`), the statements after it map related states to a dict that `Represents` `finaliseSet` -/
theorem decide_node (cx : CondCtx) (n f : Nat) (doc : PyVal) (kids : List PyVal)
    (hdoc : doc.isDict = true)
    (hk : kids = kidsOf doc)
    (hkd : ∀ c ∈ kids, c.isDict = true)
    (ih : ∀ c ∈ kids, SimRes Represents (Src.decide_single cx.o noAttr (parseDtExt cx.o) (relExt cx) c cx.env f)
            (decideTree cx "deny-overrides" "deny-overrides" (toTree n c))) :
    SimRes Represents (Src.decide cx.o noAttr (parseDtExt cx.o) (relExt cx) doc cx.env (f + 1))
      (decideTree cx "deny-overrides" "deny-overrides" (.node doc (kids.map (toTree n)))) := by
  unfold Src.decide decideTree
  simp only [getE_isDict hdoc, bind_ok, lowerE_por]
  cases hlow : lowerField (doc.get "algorithm") "deny-overrides" with
  | error e => rfl
  | ok algo =>
    simp only [Except.map, bind_ok]
    cases hp : (doc.get "policies").por (list []) with
    | list cs =>
      unfold kidsOf at hk
      rw [hp] at hk
      simp only at hk
      subst hk
      simp only [PyE.truthy_pnot, truthy_isInstance_list, PyVal.isList, Bool.not_true, Bool.false_eq_true, if_false, iterE_list, bind_ok]
      rw [childrenLoop_eq_loopM]
      refine SimRes.bind_cases (forLoop_rel StRep _
        (fun s c => (decideTree cx "deny-overrides" "deny-overrides" (toTree n c)).map (stepChild algo s (c.get "id"))) kids ?hbody _ {}
        stRep_init) _ _ ?herr ?hafter
      case herr => intro e he; rw [he]
      case hbody =>
        intro p s c hc hst
        obtain ⟨l, fr, fp, ad, dr, dp, ap, pr, pp⟩ := p
        obtain ⟨hl, hfirst, hd, hdeny, hpm, hpermit⟩ := hst
        simp only at hl hfirst hd hdeny hpm hpermit
        have hcd := hkd c hc
        have hc' := ih c hc
        simp only [getE_isDict hcd, bind_ok]
        cases hdt : decideTree cx "deny-overrides" "deny-overrides" (toTree n c) with
        | error e =>
          rw [hdt] at hc'
          simp only [SimRes] at hc'
          simp only [Except.map, hc', bind_error]
        | ok r =>
          rw [hdt] at hc'
          obtain ⟨res, hres, hrep⟩ := hc'
          have g1 : res.get "last_rule_id" = r.lastRuleId := hrep.last_rule_id
          have g2 : res.get "rule_id" = r.ruleId := hrep.rule_id
          have g3 : res.get "decision" = .str r.decision := hrep.decision
          simp only [Except.map, hres, bind_ok, getE_isDict hrep.isDict, g1, g2, g3, or_get, is_applicable_of hrep, note_cond,
            strO_decision, PyE.eq_str, truthy_bool, Py.isNone, slot_isNone hdeny, slot_isNone hpermit]
          rw [show stepChild algo s (c.get "id") r = combineChild algo (if strNonEmpty (por r.lastRuleId r.ruleId) = true
                then { s with lastRuleId := por r.lastRuleId r.ruleId } else s) (c.get "id") r from by rw [stepChild, noteRuleId_eq]]
          unfold combineChild
          by_cases hb : strNonEmpty (por r.lastRuleId r.ruleId) = true
          all_goals
            simp only [hb, if_true, if_false, eq_self, Bool.false_eq_true]
            cases happ : isApplicable r
            · simp only [Bool.not_false, if_true, eq_self, Bool.false_eq_true, if_false]
              close_step
            · simp only [Bool.not_true, Bool.false_eq_true, if_false]
              by_cases h1 : (algo == "first-applicable") = true
              · simp only [h1, if_true, eq_self]
                close_step
              · simp only [h1, if_false]
                by_cases h4 : (r.decision == "deny") = true
                · simp only [h4, if_true]
                  by_cases hsd : s.deny.isNone = true <;> by_cases h2 : (algo == "deny-overrides") = true <;>
                    simp only [hsd, h2, if_true, if_false, eq_self, Bool.false_eq_true, decide_true, decide_false] <;> close_step
                · simp only [h4, if_false]
                  by_cases h5 : (r.decision == "permit") = true
                  · simp only [h5, if_true]
                    by_cases hsp : s.permit.isNone = true <;> by_cases h3 : (algo == "permit-overrides") = true <;>
                      simp only [hsp, h3, if_true, if_false, eq_self, Bool.false_eq_true, decide_true, decide_false] <;> close_step
                  · simp only [h5, if_false, Bool.false_eq_true]
                    close_step
      case hafter =>
        intro p s hs hst
        rw [hs]
        simp only [SimRes]
        obtain ⟨l, fr, fp, ad, dr, dp, ap, pr, pp⟩ := p
        obtain ⟨hl, hfirst, hd, hdeny, hpm, hpermit⟩ := hst
        simp only at hl hfirst hd hdeny hpm hpermit
        subst hl hd hpm
        have pb : ∀ b c : Bool, (Py.pand (.bool b) (.bool c)).truthy = (b && c) := by intro b c; cases b <;> rfl
        simp only [PyE.eq_str, Py.isNotNone, truthy_bool, slot_isNone hfirst, slot_isNone hdeny, slot_isNone hpermit, dictOf_six, pb]
        unfold finaliseSet pick
        by_cases h1 : (algo == "first-applicable") = true
        · simp only [h1, if_true]
          cases hs1 : s.first with
          | none =>
            simp only [Option.isNone, Bool.not_true, Bool.false_eq_true, if_false]
            exact ⟨_, rfl, no_match_represents _⟩
          | some x =>
            obtain ⟨r, pid⟩ := x
            rw [hs1] at hfirst
            simp only [Option.isNone, Bool.not_false, if_true, dictE_isDict hfirst.1.isDict, bind_ok, hfirst.2]
            exact ⟨_, rfl, first_represents hfirst.1 pid⟩
        · simp only [h1, if_false]
          revert hdeny hpermit
          rcases s.deny with _ | ⟨rd, pd⟩ <;> rcases s.permit with _ | ⟨rp, pp'⟩ <;> intro hdeny hpermit <;>
            by_cases h2 : (algo == "deny-overrides") = true <;> cases s.anyDeny <;> cases s.anyPermit <;>
            simp only [h2, Bool.and_true, Bool.and_false, Bool.true_and, Bool.false_and, Option.isNone, Bool.not_true, Bool.not_false,
              if_true, if_false, Bool.false_eq_true] <;>
            first
              | exact ⟨_, rfl, no_match_represents _⟩
              | (obtain ⟨hr, hpid⟩ := hdeny
                 have g1 : dr.get "last_rule_id" = rd.lastRuleId := hr.last_rule_id
                 have g2 : dr.get "rule_id" = rd.ruleId := hr.rule_id
                 have g3 : dr.get "obligations" = .list rd.obligations := hr.obligations
                 simp only [getE_isDict hr.isDict, bind_ok, g1, g2, g3, or_get, por_list_nil, listE_list, dictOf_six, hpid]
                 exact ⟨_, rfl, deny_represents rd pd⟩)
              | (obtain ⟨hr, hpid⟩ := hpermit
                 subst hpid
                 have hd2 : (Py.setItem (Py.dictCopy pr) "policy_id" pp).isDict = true := by
                   rw [setItem_isDict, hr.copy]; exact hr.isDict
                 simp only [dictE_isDict hr.isDict, bind_ok, getE_isDict hd2]
                 exact ⟨_, rfl, permit_represents hr pp⟩)
    | _ =>
      -- `policies` is not a list: no children in the model's tree, and the early return is the model's `noMatch`
      have hk' : kids = [] := by rw [hk, kidsOf, hp]
      subst hk'
      simp only [List.map_nil, childrenLoop, PyE.truthy_pnot, truthy_isInstance_list, PyVal.isList, Bool.not_false, if_true, dictOf_six,
        SimRes]
      refine ⟨_, rfl, ?_⟩
      unfold finaliseSet pick
      by_cases h1 : (algo == "first-applicable") = true
      · simp only [h1, if_true]; exact no_match_represents _
      · by_cases h2 : (algo == "deny-overrides") = true <;>
          simp only [h1, h2, if_true, if_false, Bool.false_eq_true] <;> exact no_match_represents _

/-- **`_decide_single` as the source has it now, on every well-formed document**: with a budget above the size of the document, what it
    returns describes (`Represents`: field by field, in whatever key order) what the model's `decideTree` returns for the document's
    tree — a policy is evaluated by `evaluate` (`evaluate_src`), a set by `decide` (`decide_node`) on the results of its children —
    and it raises exactly the exception the model raises -/
theorem decide_single_src (cx : CondCtx) (henv : cx.env.isDict = true) : ∀ (n : Nat) (doc : PyVal) (fuel : Nat),
    doc.size < n → doc.size + 1 < fuel → DictTree (toTree n doc) →
    SimRes Represents (Src.decide_single cx.o noAttr (parseDtExt cx.o) (relExt cx) doc cx.env fuel)
      (decideTree cx "deny-overrides" "deny-overrides" (toTree n doc)) := by
  intro n
  induction n with
  | zero => intro doc fuel h; omega
  | succ n ihn =>
    intro doc fuel hn hfuel hwf
    obtain ⟨f, rfl⟩ : ∃ f, fuel = f + 2 := ⟨fuel - 2, by omega⟩
    have hdoc : doc.isDict = true := by have := dictTree_doc hwf; rwa [toTree_doc] at this
    unfold Src.decide_single
    simp only [containsE_dict_key hdoc, bind_ok, truthy_bool]
    cases hkey : doc.hasKey "policies"
    · -- a policy
      rw [toTree_leaf n doc hkey] at hwf ⊢
      simp only [Bool.false_eq_true, if_false]
      rw [evaluate_src cx doc PyVal.none (f + 1) rfl hdoc henv (dictTree_leaf hwf).2 (by omega), decideTree]
      cases hev : evaluate cx "deny-overrides" doc with
      | error e => rfl
      | ok r => exact ⟨encRaw r, rfl, represents_encRaw r (evaluate_policyId cx _ doc r hev)⟩
    · -- a set
      rw [toTree_node n doc hkey] at hwf ⊢
      simp only [if_true]
      refine decide_node cx n f doc (kidsOf doc) hdoc rfl ?_ ?_
      · intro c hc
        have := dictTree_doc ((dictTree_node hwf).2 (toTree n c) (List.mem_map_of_mem hc))
        rwa [toTree_doc] at this
      · intro c hc
        have hs := size_kid_lt doc c hc
        exact ihn c f (by omega) (by omega) ((dictTree_node hwf).2 (toTree n c) (List.mem_map_of_mem hc))

/-- **`policyset.decide` as the source has it now**: for a document with a `policies` key whose tree is well-formed (`DictTree`: the
    set, its children, their children … are dicts, the rules of the policies are dicts) and a dict `env`, with any budget above the
    size of the document, `Src.decide` returns a dict that describes `decideTree` of the document's tree, or raises the exception the
    model raises.  Both default algorithms are the literal `"deny-overrides"` of the source text. -/
theorem decide_src (cx : CondCtx) (policyset : PyVal) (fuel : Nat) (henv : cx.env.isDict = true)
    (hkey : policyset.hasKey "policies" = true) (hwf : DictTree (treeOf policyset)) (hfuel : policyset.size < fuel) :
    SimRes Represents (Src.decide cx.o noAttr (parseDtExt cx.o) (relExt cx) policyset cx.env fuel)
      (decideTree cx "deny-overrides" "deny-overrides" (treeOf policyset)) := by
  obtain ⟨f, rfl⟩ : ∃ f, fuel = f + 1 := ⟨fuel - 1, by omega⟩
  unfold treeOf at hwf ⊢
  rw [toTree_node _ policyset hkey] at hwf ⊢
  refine decide_node cx policyset.size f policyset (kidsOf policyset) (dictTree_node hwf).1 rfl ?_ ?_
  · intro c hc
    have := dictTree_doc ((dictTree_node hwf).2 (toTree policyset.size c) (List.mem_map_of_mem hc))
    rwa [toTree_doc] at this
  · intro c hc
    have hs := size_kid_lt policyset c hc
    exact decide_single_src cx henv policyset.size c f (by omega) (by omega) ((dictTree_node hwf).2 (toTree policyset.size c) (List.mem_map_of_mem hc))

end Rbacx.Translated

#print axioms Rbacx.Translated.evaluate_src
#print axioms Rbacx.Translated.evaluate_src_nondict
#print axioms Rbacx.Translated.decide_node
#print axioms Rbacx.Translated.decide_single_src
#print axioms Rbacx.Translated.decide_src
