import Rbacx.Generated
import Rbacx.Proofs.CompileTranslated
import Rbacx.Run.C03_translated
import Rbacx.Run.C05_translated
import Rbacx.Run.C02_whole
set_option linter.unusedSimpArgs false
set_option linter.unusedVariables false
namespace Rbacx.Translated
open Rbacx Rbacx.Py Rbacx.PyE Rbacx.PyI Rbacx.Generated PyVal

theorem truthy_pnot_encStrs (l : List String) : (Py.pnot (encStrs l)).truthy = l.isEmpty := by
  cases l <;> rfl

theorem containsE_encStrs (l : List String) (a : String) : containsE (encStrs l) (.str a) = .ok (.bool (l.contains a)) := by
  have h := contains_encStrs l (.str a)
  have e : containsE (encStrs l) (.str a) = .ok (Py.contains (encStrs l) (.str a)) := rfl
  rw [e, h]

theorem iterE_encStrs (l : List String) : iterE (encStrs l) = .ok (l.map PyVal.str) := rfl

theorem compile_decide_src (cx : CondCtx) (c : Consts) (policy : PyVal) (fuel : Nat)
    (hc : c.compilerDefault = Src.compile_default)
    (hpol : policy.isDict = true) (hsingle : policy.hasKey "policies" = false) (henv : cx.env.isDict = true)
    (hres : (por (cx.env.get "resource") (.dict [])).isDict = true)
    (rs : List PyVal) (hlist : por (policy.get "rules") (.list []) = .list rs) (hrules : ∀ r ∈ rs, r.isDict = true)
    (hfuel : policy.size + 2 < fuel) :
    Src.compile_decide cx.o noAttr (parseDtExt cx.o) (relExt cx) policy cx.env fuel = (compiledDecide cx c policy).map encRaw := by
  unfold Src.compile_decide compiledDecide
  simp only [containsE_dict_key hpol, bind_ok, truthy_bool, hsingle, Bool.false_eq_true, if_false, getE_isDict hpol, lowerE_por, hc, hlist]
  cases hlow : lowerField (policy.get "algorithm") Src.compile_default with
  | error e => rfl
  | ok algo =>
    simp only [Except.map, bind_ok, tagList_list, iterE_list]
    refine forLoop_inv_bind InvA _ _ _ _ _ ⟨rfl, rfl, [], rfl, byAct_nil _⟩ ?stepA ?afterA
    case stepA =>
      intro p x q s hsplit hinv
      obtain ⟨o, st, ba⟩ := s
      obtain ⟨h1, h2, kvs, h3, hby⟩ := hinv
      simp only at h1 h2 h3
      subst h1 h2 h3
      obtain ⟨hx, hv⟩ := eq_tag_of_split hsplit
      generalize untag x = v at hx hv
      subst hx
      simp only [lenE_idEntries, bind_ok, idOf_tag, untag_tag, idSetdefault_idEntries, actions, truthy_pnot_encStrs, containsE_encStrs,
        iterE_encStrs, truthy_bool]
      exact index_step _ p kvs v (fun s a => rfl) hby
    case afterA =>
      intro s hinv
      obtain ⟨o, st, ba⟩ := s
      obtain ⟨h1, h2, kvs, h3, hby⟩ := hinv
      simp only at h1 h2 h3
      subst h1 h2 h3
      simp only [getE_isDict henv, getE_isDict hres, bind_ok]
      trace_state
      sorry

end Rbacx.Translated
