import Rbacx.Generated
import Rbacx.Proofs.PyLibLemmas
import Rbacx.Proofs.RawDict
import Rbacx.Model.PolicySet
import Rbacx.Proofs.CompiledTier
/-!
  Per-run obligation: the functions of compiler.py / policy.py / policyset.py as they are written NOW — translated statement by
  statement into `Rbacx.Generated.Src.*` by harness/pytolean.py — compute what the hand-written model functions compute
  (`resourceTypes`, `hasId`, `hasAttrs`, `categorize`, `compActions`, `matchActions`, `isApplicable`), on every input.
  These are the functions `Rbacx.categorize_eq_tier` (C03), the C05 matcher theorems and the C02 set theorems are about.
-/
namespace Rbacx.Translated
open Rbacx Rbacx.Py Rbacx.Generated PyVal

theorem has_id (rule : PyVal) : Src.has_id rule = .bool (hasId rule) := rfl

theorem has_attrs (rule : PyVal) : Src.has_attrs rule = .bool (hasAttrs rule) := by
  unfold Src.has_attrs hasAttrs attrsOf
  simp only [Py.get]
  rw [← por_assoc]
  generalize por (por ((por (rule.get "resource") (.dict [])).get "attrs") ((por (rule.get "resource") (.dict [])).get "attributes")) (.dict []) = a
  cases a with
  | dict kvs => cases kvs <;> simp [Py.pand, Py.isInstance, Py.gtInt, Py.len, PyVal.isDict, PyVal.truthy]
  | none => rfl
  | bool b => rfl
  | int n => rfl
  | float f => rfl
  | str s => rfl
  | list l => rfl
  | dt a m => rfl

theorem collect_types (xs : List PyVal) :
    (xs.flatMap fun x => if (Py.isInstance x "str").truthy then [if (Py.eq x (.str "*")).truthy then PyVal.none else x] else []) =
      (xs.filterMap fun x => match x with
        | .str s => some (if s == "*" then Option.none else some s)
        | _ => Option.none).map optToVal := by
  induction xs with
  | nil => rfl
  | cons x xs ih =>
    cases x with
    | str s =>
      simp only [List.flatMap_cons, List.filterMap_cons, List.map_cons, ih]
      by_cases h : s = "*"
      · subst h; rfl
      · have h1 : (s == "*") = false := by simpa using h
        simp [Py.isInstance, Py.eq, PyVal.isStr, PyVal.truthy, pyEq, h1, optToVal]
    | none => simpa [List.flatMap_cons, Py.isInstance, PyVal.isStr, PyVal.truthy] using ih
    | bool b => simpa [List.flatMap_cons, Py.isInstance, PyVal.isStr, PyVal.truthy] using ih
    | int n => simpa [List.flatMap_cons, Py.isInstance, PyVal.isStr, PyVal.truthy] using ih
    | float f => simpa [List.flatMap_cons, Py.isInstance, PyVal.isStr, PyVal.truthy] using ih
    | list l => simpa [List.flatMap_cons, Py.isInstance, PyVal.isStr, PyVal.truthy] using ih
    | dict d => simpa [List.flatMap_cons, Py.isInstance, PyVal.isStr, PyVal.truthy] using ih
    | dt a m => simpa [List.flatMap_cons, Py.isInstance, PyVal.isStr, PyVal.truthy] using ih

theorem resource_types_aux (t : PyVal) :
    (if (Py.isNone t).truthy then PyVal.list [PyVal.none]
     else if (Py.isInstance t "str").truthy then
       (if (Py.eq t (.str "*")).truthy then PyVal.list [PyVal.none] else PyVal.list [t])
     else if (Py.isInstance t "list").truthy then
       (if (Py.concat (.list []) (Py.collect t fun x =>
              if (Py.isInstance x "str").truthy then [if (Py.eq x (.str "*")).truthy then PyVal.none else x] else [])).truthy
        then PyVal.list (Py.iter (Py.concat (.list []) (Py.collect t fun x =>
              if (Py.isInstance x "str").truthy then [if (Py.eq x (.str "*")).truthy then PyVal.none else x] else [])))
        else PyVal.list [PyVal.none])
     else PyVal.list [PyVal.none]) =
    encTypes (match t with
      | .none => [Option.none]
      | .str t => if t == "*" then [Option.none] else [some t]
      | .list xs =>
        let out := xs.filterMap fun x => match x with
          | .str s => some (if s == "*" then Option.none else some s)
          | _ => Option.none
        if out.isEmpty then [Option.none] else out
      | _ => [Option.none]) := by
  cases t with
  | none => rfl
  | str s =>
    by_cases h : s = "*"
    · subst h; rfl
    · have h1 : (s == "*") = false := by simpa using h
      simp [Py.isNone, Py.isInstance, Py.eq, PyVal.isNone, PyVal.isStr, PyVal.truthy, pyEq, h1, encTypes, optToVal]
  | list xs =>
    have e1 : Py.isInstance (PyVal.list xs) "str" = .bool false := rfl
    have e2 : Py.isInstance (PyVal.list xs) "list" = .bool true := rfl
    have e3 : Py.isNone (PyVal.list xs) = .bool false := rfl
    simp only [e1, e2, e3, truthy_bool, Bool.false_eq_true, if_false, if_true, Py.collect, Py.concat, Py.iter, List.nil_append,
      collect_types, truthy_list]
    generalize (xs.filterMap fun x => match x with
        | .str s => some (if s == "*" then Option.none else some s)
        | _ => Option.none) = out
    cases out <;> rfl
  | bool b => rfl
  | int n => rfl
  | float f => rfl
  | dict d => rfl
  | dt a m => rfl

theorem resource_types (rule : PyVal) : Src.resource_types rule = encTypes (resourceTypes rule) :=
  resource_types_aux _

theorem resourceTypes_ne_nil (rule : PyVal) : (resourceTypes rule).isEmpty = false := by
  rw [resourceTypes_eq]
  generalize (por (rule.get "resource") (.dict [])).get "type" = t
  cases t with
  | str s => by_cases h : (s == "*") = true <;> simp [h]
  | list xs =>
    simp only []
    cases h : (xs.filterMap typeEntry).isEmpty
    · simp [h]
    · simp [h]
  | none => rfl
  | bool b => rfl
  | int n => rfl
  | float f => rfl
  | dict d => rfl
  | dt a m => rfl

theorem type_matches (l : List (Option String)) (x : Option String) (hne : l.isEmpty = false) :
    Src.type_matches (encTypes l) (optToVal x) = .bool (l.contains x || l.contains Option.none) := by
  unfold Src.type_matches
  have hn : optToVal Option.none = PyVal.none := rfl
  rw [← hn, contains_encTypes, contains_encTypes]
  simp only [Py.pnot, truthy_encTypes, hne, Bool.not_false, Bool.not_true, truthy_bool, Bool.false_eq_true, if_false, por]
  cases l.contains x <;> rfl

theorem categorize (rule : PyVal) (x : Option String) :
    Src.categorize rule (optToVal x) = encOptNat (Rbacx.categorize rule x) := by
  unfold Src.categorize Rbacx.categorize
  simp only [resource_types, type_matches _ _ (resourceTypes_ne_nil rule), contains_encTypes, has_id, has_attrs, Py.pnot, Py.pand,
    truthy_bool]
  cases (resourceTypes rule).contains x <;> cases (resourceTypes rule).contains Option.none <;>
    cases hasId rule <;> cases hasAttrs rule <;> rfl

theorem collect_strs (xs : List PyVal) :
    (xs.flatMap fun a => if (Py.isInstance a "str").truthy then [a] else []) = (xs.filterMap PyVal.asStr?).map PyVal.str := by
  induction xs with
  | nil => rfl
  | cons x xs ih => cases x <;> simp_all [List.flatMap_cons, List.filterMap_cons, Py.isInstance, PyVal.isStr, PyVal.truthy, PyVal.asStr?]

theorem collect_strs_all {α : Type} (f : α → String) (l : List α) :
    ((l.map fun x => PyVal.str (f x)).flatMap fun a => if (Py.isInstance a "str").truthy then [a] else []) =
      (l.map f).map PyVal.str := by
  induction l with
  | nil => rfl
  | cons x xs ih => simp_all [List.flatMap_cons, Py.isInstance, PyVal.isStr, PyVal.truthy]

/-- the list comprehension `[a for a in acts_raw if isinstance(a, str)]` -/
theorem collect_actions (a : PyVal) (acts : List String) (h : actionStrings a = some acts) :
    (Py.collect a fun a => if (Py.isInstance a "str").truthy then [a] else []) = encStrs acts := by
  unfold Py.collect encStrs
  congr 1
  cases a with
  | list xs => simp only [actionStrings, Option.some.injEq] at h; subst h; exact collect_strs xs
  | str s =>
    simp only [actionStrings, Option.some.injEq] at h; subst h
    exact collect_strs_all (fun c => String.ofList [c]) s.toList
  | dict kvs =>
    simp only [actionStrings, Option.some.injEq] at h; subst h
    exact collect_strs_all (fun kv : String × PyVal => kv.1) kvs
  | none => simp [actionStrings] at h
  | bool b => simp [actionStrings] at h
  | int n => simp [actionStrings] at h
  | float f => simp [actionStrings] at h
  | dt x m => simp [actionStrings] at h

theorem iterable_iff (a : PyVal) : (Py.pnot (Py.isInstance a "Iterable")).truthy = (actionStrings a).isNone := by
  cases a <;> rfl

theorem actions_aux (a : PyVal) :
    (if (Py.pnot (Py.isInstance a "Iterable")).truthy then PyVal.list []
     else PyVal.list (Py.iter (Py.collect a fun a => if (Py.isInstance a "str").truthy then [a] else []))) =
      encStrs ((actionStrings a).getD []) := by
  rw [iterable_iff]
  cases h : actionStrings a with
  | none => rfl
  | some acts => simp only [Option.isNone, Bool.false_eq_true, if_false, Option.getD, collect_actions a acts h]; rfl

theorem actions (rule : PyVal) : Src.actions rule = encStrs (compActions rule) := actions_aux _

theorem match_actions_aux (a action : PyVal) :
    (if (Py.pnot (Py.isInstance a "Iterable")).truthy then PyVal.bool false
     else por (Py.contains (Py.collect a fun a => if (Py.isInstance a "str").truthy then [a] else []) action)
              (Py.contains (Py.collect a fun a => if (Py.isInstance a "str").truthy then [a] else []) (.str "*"))) =
      PyVal.bool (match actionStrings a with
        | Option.none => false
        | some acts => (match action with | .str x => acts.contains x | _ => false) || acts.contains "*") := by
  rw [iterable_iff]
  cases h : actionStrings a with
  | none => rfl
  | some acts =>
    simp only [Option.isNone, Bool.false_eq_true, if_false, collect_actions a acts h, contains_encStrs]
    cases action with
    | str x => simp only []; cases acts.contains x <;> cases acts.contains "*" <;> rfl
    | none => simp only []; cases acts.contains "*" <;> rfl
    | bool b => simp only []; cases acts.contains "*" <;> rfl
    | int n => simp only []; cases acts.contains "*" <;> rfl
    | float f => simp only []; cases acts.contains "*" <;> rfl
    | list l => simp only []; cases acts.contains "*" <;> rfl
    | dict d => simp only []; cases acts.contains "*" <;> rfl
    | dt x m => simp only []; cases acts.contains "*" <;> rfl

theorem match_actions (rule action : PyVal) : Src.match_actions rule action = .bool (matchActions rule action) :=
  match_actions_aux _ _

/-- the raw decision dict the set evaluator looks at -/
def rawDict (r : Raw) : PyVal :=
  .dict [("decision", .str r.decision), ("reason", .str r.reason), ("rule_id", r.ruleId), ("last_rule_id", r.lastRuleId),
         ("policy_id", r.policyId), ("obligations", .list r.obligations)]

theorem is_applicable (r : Raw) : Src.is_applicable (rawDict r) = .bool (isApplicable r) :=
  is_applicable_aux r.lastRuleId r.ruleId r.reason

end Rbacx.Translated

#print axioms Rbacx.Translated.has_id
#print axioms Rbacx.Translated.has_attrs
#print axioms Rbacx.Translated.resource_types
#print axioms Rbacx.Translated.type_matches
#print axioms Rbacx.Translated.categorize
#print axioms Rbacx.Translated.actions
#print axioms Rbacx.Translated.match_actions
#print axioms Rbacx.Translated.is_applicable
