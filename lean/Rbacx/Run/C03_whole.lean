import Rbacx.Generated
import Rbacx.Proofs.CompileTranslated
import Rbacx.Run.C03_translated
import Rbacx.Run.C05_translated
import Rbacx.Run.C02_whole
/-!
  Per-run obligation (C03): THE COMPILER ITSELF, as it is written NOW.  harness/pytolean_closure.py (plugin
  `extractors/src_translation_compile.py`) translates `compile(policy)` of core/compiler.py TOGETHER WITH the closure `decide(env)` it
  returns into ONE exception-passing definition `Rbacx.Generated.Src.compile_decide … policy env fuel` = `compile(policy)(env)`: the set
  delegation, `rules = … or []`, the default algorithm (emitted under its own name `Src.compile_default`: whatever literal the source
  carries — known finding F1; the literal is judged by `Run/C17_defaults.lean`) and its `.lower()`, the index-building loop
  (`by_action`, `star_rules`, `order` keyed by `id(rule)` = POSITION of the rule, Model/PyIdent.lean), and the whole closure — the
  stringified action / type, candidate collection with the `seen` set, the sort back into document order, the four buckets with their
  `matched` flags, the selection loop, `evaluate_policy({...}, env)`.  The functions it calls are the translations the other obligations
  are about (imported): `Src.actions`, `Src.categorize` (C03_translated), `Src.match_resource`, `Src.is_strict` (C05_translated),
  `Src.evaluate`, `Src.decide` (C02_whole).

  Proved here, on the generated text (nothing of `compile` / `decide` is hand-modelled any more):

  * **`compile_decide_src`** (and `compile_decide_whole`, the same with the hypotheses stated on `rulesOf`) — for every dict policy without a
    `policies` key whose `rules` is falsy or a list of dicts, every dict env whose `resource` is a dict or falsy, every oracle, with
    `c.compilerDefault = Src.compile_default` and `policy.size + 2 < fuel`:
    `Src.compile_decide cx.o noAttr (parseDtExt cx.o) (relExt cx) policy cx.env fuel = (compiledDecide cx c policy).map encRaw` — the same
    dict (five keys, source order) or the same exception.  The proof simulates the five generated loops: the index loop keeps `InvA`
    (`order` = identity ↦ position, `star_rules` = the '*' rules in order, `by_action` holds under every action exactly the rules naming
    it: `index_step` / `ByAct.*`); the two collection loops are folds of `stepC` (`collect_body`), and with the stable sort by `order`
    they give the tagged rules filtered by `isCandidate` in document order (`collect_sort_eq_filter`); the bucket loop keeps
    `encB` (bucket `i` = the candidates of category `i`, `matched[i]` = one of them matches: `bucket_step`, with `Src.categorize` /
    `Src.match_resource` replaced by what C03_translated / C05_translated prove them equal to); the selection loop is the first
    bucket with a matching rule (`select_loop_bind`) = the model's `selectBucket` (`selectBucket_map`); the last call is `evaluate_src`
    of C02_whole on the compiled policy (`evaluate_compiled`: lowering the algorithm twice is lowering it once, `asciiLower_idem`; the
    compiled policy is no larger than the policy + 2, `sizeL_sublist`).  So `c03_compiled_eq_reference`, `c03_irrelevant_rule` and
    `c03_guard` speak about what compiler.py says now.
    Hypotheses, honestly: a truthy non-list `rules` makes CPython raise at compile time (TypeError / AttributeError) where the model
    answers — outside; an item of `rules` or an `env` / `env["resource"]` that is not a dict makes CPython raise AttributeError where the
    model's `get` answers None — outside (DESIGN §2.1); a rules list that holds ONE dict object twice is not represented (identity =
    position); the externals of `eval_condition` are instantiated as in C02_whole / C04_translated.
  * `compile_decide_set_delegates` — for every dict document with a `policies` key, every env, every budget:
    `Src.compile_decide … = Src.decide …` (a set is not compiled), and `compile_decide_set`: what it returns `Represents` (field by
    field) the model's `compiledDecide` = `decideTree` of the document's tree, or it raises the exception the model raises
    (`decide_src` of C02_whole; hypotheses: the tree is well-formed `DictTree`, env is a dict, the budget exceeds the size, the model's
    two set defaults are the literal "deny-overrides" of policyset.py).  So `c03_set_delegates` speaks about what compiler.py says now.
  * `compile_decide_algorithm_error` — a corollary kept for its weaker hypotheses (any rules, any env): when
    `(policy.get("algorithm") or <the source's literal>).lower()` raises, `compile(policy)(env)` raises what the model raises.
  * three NON-VACUITY witnesses evaluated by the kernel on the generated text and on the model (`witness_document_order`,
    `witness_unmatched_bucket`, `witness_most_specific_first`).
-/
set_option linter.unusedSimpArgs false
set_option linter.unusedVariables false
namespace Rbacx.Translated
open Rbacx Rbacx.Py Rbacx.PyE Rbacx.PyI Rbacx.Generated PyVal

/-- a policy SET is not compiled: `compile(policy)(env)` IS `decide(policy, env)` -/
theorem compile_decide_set_delegates (o : Oracle) (ga : PyVal → PyVal → PyVal → Except CondErr PyVal) (pd rb : PyVal → PyVal → Except CondErr PyVal)
    (policy env : PyVal) (fuel : Nat) (hpol : policy.isDict = true) (hset : policy.hasKey "policies" = true) :
    Src.compile_decide o ga pd rb policy env fuel = Src.decide o ga pd rb policy env fuel := by
  unfold Src.compile_decide
  simp only [containsE_dict_key hpol, bind_ok, truthy_bool, hset, if_true]

/-- for a set document the compiled function describes the model's `compiledDecide` (= the set evaluator on the document's tree) -/
theorem compile_decide_set (cx : CondCtx) (c : Consts) (policy : PyVal) (fuel : Nat)
    (hi : c.interpDefault = "deny-overrides") (hs : c.setDefault = "deny-overrides")
    (henv : cx.env.isDict = true) (hset : policy.hasKey "policies" = true) (hwf : DictTree (treeOf policy)) (hfuel : policy.size < fuel) :
    SimRes Represents (Src.compile_decide cx.o noAttr (parseDtExt cx.o) (relExt cx) policy cx.env fuel) (compiledDecide cx c policy) := by
  have hpol : policy.isDict = true := by have := dictTree_doc hwf; unfold treeOf at this; rwa [toTree_doc] at this
  rw [compile_decide_set_delegates _ _ _ _ _ _ _ hpol hset]
  unfold compiledDecide
  simp only [hset, if_true, hi, hs]
  exact decide_src cx policy fuel henv hset hwf hfuel

/-- a single policy whose algorithm cannot be lowered: the same exception as the model, with the source's own default literal -/
theorem compile_decide_algorithm_error (cx : CondCtx) (c : Consts) (policy env : PyVal) (fuel : Nat) (e : CondErr)
    (ga : PyVal → PyVal → PyVal → Except CondErr PyVal) (pd rb : PyVal → PyVal → Except CondErr PyVal)
    (hc : c.compilerDefault = Src.compile_default) (hpol : policy.isDict = true) (hsingle : policy.hasKey "policies" = false)
    (hlow : lowerField (policy.get "algorithm") Src.compile_default = .error e) :
    Src.compile_decide cx.o ga pd rb policy env fuel = .error e ∧ compiledDecide cx c policy = .error e := by
  unfold Src.compile_decide compiledDecide
  simp only [containsE_dict_key hpol, bind_ok, truthy_bool, hsingle, Bool.false_eq_true, if_false, getE_isDict hpol, lowerE_por, hc, hlow,
    Except.map, bind_error, and_self]

theorem truthy_pnot_encStrs (l : List String) : (Py.pnot (encStrs l)).truthy = l.isEmpty := by
  cases l <;> rfl

theorem containsE_encStrs (l : List String) (a : String) : containsE (encStrs l) (.str a) = .ok (.bool (l.contains a)) := by
  have h := contains_encStrs l (.str a)
  have e : containsE (encStrs l) (.str a) = .ok (Py.contains (encStrs l) (.str a)) := rfl
  rw [e, h]

theorem iterE_encStrs (l : List String) : iterE (encStrs l) = .ok (l.map PyVal.str) := rfl

theorem action_str (o : Oracle) (av : PyVal) :
    (if (Py.isNotNone av).truthy = true then Py.strO o av else PyVal.str "") = .str (if av.isNone = true then "" else o.pyStr av) := by
  cases h : av.isNone <;> simp [Py.isNotNone, h, Py.strO, PyVal.truthy]

theorem restype_opt (o : Oracle) (rt : PyVal) :
    (if (Py.isNone rt).truthy = true then PyVal.none else Py.strO o rt) = optToVal (if rt.isNone = true then Option.none else some (o.pyStr rt)) := by
  cases h : rt.isNone <;> simp [Py.isNone, h, Py.strO, PyVal.truthy, optToVal]

theorem categorize_le3 (r : PyVal) (x : Option String) (n : Nat) (h : Rbacx.categorize r x = some n) : n ≤ 3 := by
  unfold Rbacx.categorize at h
  simp only at h
  split at h
  · cases h
  · split at h
    · injection h with h; omega
    · split at h
      · injection h with h; omega
      · split at h <;> (injection h with h; omega)

/-- **`compile(policy)(env)` as the source has it now, for a single policy: the whole function and the closure it returns** (see the
    header for the hypotheses): the same dict — five keys, source order — or the same exception as the model's `compiledDecide` with
    `compilerDefault :=` the literal of the source -/
theorem compile_decide_src (cx : CondCtx) (c : Consts) (policy : PyVal) (fuel : Nat)
    (hc : c.compilerDefault = Src.compile_default)
    (hpol : policy.isDict = true) (hsingle : policy.hasKey "policies" = false) (henv : cx.env.isDict = true)
    (hres : (por (cx.env.get "resource") (.dict [])).isDict = true)
    (rs : List PyVal) (hlist : por (policy.get "rules") (.list []) = .list rs) (hrules : ∀ r ∈ rs, r.isDict = true)
    (hfuel : policy.size + 2 < fuel) :
    Src.compile_decide cx.o noAttr (parseDtExt cx.o) (relExt cx) policy cx.env fuel = (compiledDecide cx c policy).map encRaw := by
  unfold Src.compile_decide compiledDecide
  simp only [containsE_dict_key hpol, bind_ok, truthy_bool, hsingle, Bool.false_eq_true, if_false, getE_isDict hpol, lowerE_por, hc, hlist]
  cases hlow : lowerField (policy.get "algorithm") Src.compile_default with
  | error e => rfl
  | ok algo =>
    simp only [Except.map, bind_ok, tagList_list, iterE_list]
    refine forLoop_inv_bind InvA _ _ _ _ _ ⟨rfl, rfl, [], rfl, byAct_nil _⟩ ?stepA ?afterA
    case stepA =>
      intro p x q s hsplit hinv
      obtain ⟨o, st, ba⟩ := s
      obtain ⟨h1, h2, kvs, h3, hby⟩ := hinv
      simp only at h1 h2 h3
      subst h1 h2 h3
      obtain ⟨hx, hv⟩ := eq_tag_of_split hsplit
      generalize untag x = v at hx hv
      subst hx
      simp only [lenE_idEntries, bind_ok, idOf_tag, untag_tag, idSetdefault_idEntries, actions, truthy_pnot_encStrs, containsE_encStrs,
        iterE_encStrs, truthy_bool]
      exact index_step _ p kvs v (fun s a => rfl) hby
    case afterA =>
      intro s hinv
      obtain ⟨o, st, ba⟩ := s
      obtain ⟨h1, h2, kvs, h3, hby⟩ := hinv
      simp only at h1 h2 h3
      subst h1 h2 h3
      simp only [getE_isDict henv, getE_isDict hres, bind_ok, action_str, restype_opt]
      generalize hres' : (cx.env.get "resource").por (dict []) = res at *
      generalize hrt : (if (res.get "type").isNone = true then Option.none else some (cx.o.pyStr (res.get "type"))) = rtO
      generalize hact : (if (cx.env.get "action").isNone = true then "" else cx.o.pyStr (cx.env.get "action")) = a
      have hT := tagFrom_sorted 0 rs
      have htag : ∀ x ∈ tagFrom 0 rs, IsTagged x := fun x hx => tagged_of_mem_tagFrom hx
      obtain ⟨l, hl, hmem⟩ := hby.get a
      rw [hl]
      simp only [bind_ok, iterE_list]
      refine forLoop_fold_enc_bind encCS stepC _ l ([], []) _ _ ?h1 ?k1
      case h1 =>
        intro s x hx
        exact collect_body s.1 s.2 x (htag x ((hmem x).mp hx).1)
      case k1 =>
        refine forLoop_fold_enc_bind encCS stepC _ _ (l.foldl stepC ([], [])) _ _ ?h2 ?k2
        case h2 =>
          intro s x hx
          exact collect_body s.1 s.2 x (htag x (List.mem_filter.mp hx).1)
        case k2 =>
          have hkey : ∀ x ∈ tagFrom 0 rs, (fun r => idGet (list (idEntries (tagFrom 0 rs).length)) (idOf r) (int 0)) x = .int (tagNat x) := by
            intro x hx
            simp only [(htag x hx).idOf]
            exact idGet_idEntries _ _ (by have := mem_tagFrom_lt hx; rw [tagFrom_length]; omega) _
          have hcs := collect_sort_eq_filter (tagFrom 0 rs) l ((tagFrom 0 rs).filter starP) (namedP a) starP _ hT htag hmem
            (fun x => List.mem_filter) hkey
          simp only [encCS, sortBy, hcs, iterE_list, bind_ok]
          generalize hC : List.filter (fun x => namedP a x || starP x) (tagFrom 0 rs) = C
          have hCmem : ∀ x ∈ C, x ∈ tagFrom 0 rs := by subst hC; intro x hx; exact (List.mem_filter.mp hx).1
          simp only [categorize, strict_arg_src, match_resource]
          refine forLoop_inv_bind (fun p s => s = encB (fun x => Rbacx.categorize (untag x) rtO)
            (fun x => matchResource cx.o (isStrict cx.env) (por ((untag x).get "resource") (dict [])) res) p) _ _ _ _ _ rfl ?stepC ?afterC
          case stepC =>
            intro p x q s hsplit hs
            subst hs
            have hxC : x ∈ C := by rw [hsplit]; simp
            have hd : (untag x).isDict = true := hrules _ (mem_tagFrom_untag (hCmem x hxC))
            refine ⟨_, ?_, rfl⟩
            simp only [getE_isDict hd, bind_ok]
            exact bucket_step _ _ (fun x n h => categorize_le3 _ _ n h) p x
          case afterC =>
            intro s hs
            subst hs
            refine select_loop_bind
              (fun x => matchResource cx.o (isStrict cx.env) (por ((untag x).get "resource") (dict [])) res)
              (C.filter fun x => Rbacx.categorize (untag x) rtO == some 0) (C.filter fun x => Rbacx.categorize (untag x) rtO == some 1)
              (C.filter fun x => Rbacx.categorize (untag x) rtO == some 2) (C.filter fun x => Rbacx.categorize (untag x) rtO == some 3)
              _ _ _ ?h0 ?h1 ?h2 ?h3 ?kS
            case h0 => intro sel; simp only [encB, (itemE4 _ _ _ _).1]; exact select_body_aux _ _ _
            case h1 => intro sel; simp only [encB, (itemE4 _ _ _ _).2.1]; exact select_body_aux _ _ _
            case h2 => intro sel; simp only [encB, (itemE4 _ _ _ _).2.2.1]; exact select_body_aux _ _ _
            case h3 => intro sel; simp only [encB, (itemE4 _ _ _ _).2.2.2]; exact select_body_aux _ _ _
            case kS =>
              have hro : rulesOf policy = rs := by unfold rulesOf; rw [hlist]
              have hd : Src.compile_default ≠ "" := by decide
              obtain ⟨hne, hfix⟩ := lowerField_fix hlow hd
              rw [hro, candidates_map rs a, hC, selectBucket_map]
              generalize hsel : selectB (fun x => matchResource cx.o (isStrict cx.env) (por ((untag x).get "resource") (dict [])) res)
                [C.filter fun x => Rbacx.categorize (untag x) rtO == some 0, C.filter fun x => Rbacx.categorize (untag x) rtO == some 1,
                 C.filter fun x => Rbacx.categorize (untag x) rtO == some 2, C.filter fun x => Rbacx.categorize (untag x) rtO == some 3] = sel
              have hsub : sel.Sublist C := by rw [← hsel]; exact selectB_sublist _ _ _ _ _ _
              have hsub2 : (sel.map untag).Sublist rs := by
                have h1 : C.Sublist (tagFrom 0 rs) := by rw [← hC]; exact List.filter_sublist
                have := (hsub.trans h1).map untag
                rwa [map_untag_tagFrom] at this
              simp only [untagList, dictOf_two]
              have hsz : (PyVal.dict [("algorithm", .str algo), ("rules", .list (sel.map untag))]).size < fuel := by
                rw [size_compiled]
                have h1 := sizeL_sublist hsub2
                have h2 : sizeL rs + 1 ≤ policy.size := by
                  by_cases ht : (policy.get "rules").truthy = true
                  · have h3 := size_get_lt_of_truthy policy "rules" ht
                    have h4 : policy.get "rules" = .list rs := by rw [← hlist]; unfold por; simp [ht]
                    rw [h4] at h3
                    simp only [PyVal.size] at h3
                    omega
                  · have h4 : rs = [] := by
                      unfold por at hlist
                      simp only [ht, Bool.false_eq_true, if_false] at hlist
                      injection hlist with hlist; exact hlist.symm
                    subst h4
                    have := size_pos policy
                    simp only [sizeL]; omega
                omega
              have hrd : ∀ r ∈ rulesOf (PyVal.dict [("algorithm", .str algo), ("rules", .list (sel.map untag))]), r.isDict = true := by
                intro r hr
                have : rulesOf (PyVal.dict [("algorithm", .str algo), ("rules", .list (sel.map untag))]) = sel.map untag := by
                  unfold rulesOf
                  have : (PyVal.dict [("algorithm", .str algo), ("rules", .list (sel.map untag))]).get "rules" = .list (sel.map untag) := by simp [PyVal.get, lookup]
                  rw [this, por_list_nil]
                rw [this] at hr
                exact hrules r (hsub2.subset hr)
              rw [evaluate_src cx _ PyVal.none fuel rfl rfl henv hrd hsz, evaluate_compiled cx algo _ hne hfix]
              cases rulesLoop cx algo {} (sel.map untag) <;> rfl


/-- the same, with the hypotheses stated on the policy: `rules` is falsy or a list, and its items are dicts -/
theorem compile_decide_whole (cx : CondCtx) (c : Consts) (policy : PyVal) (fuel : Nat)
    (hc : c.compilerDefault = Src.compile_default)
    (hpol : policy.isDict = true) (hsingle : policy.hasKey "policies" = false) (henv : cx.env.isDict = true)
    (hres : (por (cx.env.get "resource") (.dict [])).isDict = true)
    (hlist : (por (policy.get "rules") (.list [])).isList = true) (hrules : ∀ r ∈ rulesOf policy, r.isDict = true)
    (hfuel : policy.size + 2 < fuel) :
    Src.compile_decide cx.o noAttr (parseDtExt cx.o) (relExt cx) policy cx.env fuel = (compiledDecide cx c policy).map encRaw := by
  cases h : por (policy.get "rules") (.list []) with
  | list rs =>
    refine compile_decide_src cx c policy fuel hc hpol hsingle henv hres rs h ?_ hfuel
    intro r hr
    apply hrules
    unfold rulesOf
    rw [h]
    exact hr
  | _ => rw [h] at hlist; simp [PyVal.isList] at hlist

/-! ### non-vacuity: three concrete documents, evaluated by the kernel on the CURRENT text of `compile` and on the model — the sort,
  the `matched` flags, the order of the selection loop -/

private def wrule (rid eff : String) (acts : List String) (res : List (String × PyVal)) : PyVal :=
  .dict [("id", .str rid), ("effect", .str eff), ("actions", .list (acts.map .str)), ("resource", .dict res)]

private def wenv : PyVal :=
  .dict [("action", .str "read"), ("resource", .dict [("type", .str "doc"), ("id", .str "1"), ("attrs", .dict [])])]

private def wpol (algo : String) (rules : List PyVal) : PyVal := .dict [("algorithm", .str algo), ("rules", .list rules)]

private def wout (d reason rid : String) : Except CondErr PyVal :=
  .ok (.dict [("decision", .str d), ("reason", .str reason), ("rule_id", .str rid), ("last_rule_id", .str rid), ("obligations", .list [])])

/-- document order survives the index: a '*' rule BEFORE a named-action rule decides under first-applicable (the sort; F3) -/
theorem witness_document_order (o : Oracle) (c : Consts) :
    let pol := wpol "first-applicable" [wrule "star" "deny" ["*"] [("type", .str "doc")], wrule "named" "permit" ["read"] [("type", .str "doc")]]
    let cx : CondCtx := { o, env := wenv, checker := none }
    Src.compile_decide o noAttr (parseDtExt o) (relExt cx) pol wenv 40 = wout "deny" "explicit_deny" "star" ∧
      (compiledDecide cx c pol).map encRaw = wout "deny" "explicit_deny" "star" := ⟨rfl, rfl⟩

/-- a more specific rule aimed at ANOTHER resource does not shadow the generic rule (the `matched` flags; F2) -/
theorem witness_unmatched_bucket (o : Oracle) (c : Consts) :
    let pol := wpol "permit-overrides" [wrule "generic" "permit" ["read"] [("type", .str "doc")],
                                        wrule "other" "deny" ["read"] [("type", .str "doc"), ("id", .str "2")]]
    let cx : CondCtx := { o, env := wenv, checker := none }
    Src.compile_decide o noAttr (parseDtExt o) (relExt cx) pol wenv 40 = wout "permit" "matched" "generic" ∧
      (compiledDecide cx c pol).map encRaw = wout "permit" "matched" "generic" := ⟨rfl, rfl⟩

/-- of two eligible buckets the MORE specific one is taken (the order of the selection loop) -/
theorem witness_most_specific_first (o : Oracle) (c : Consts) :
    let pol := wpol "permit-overrides" [wrule "generic" "permit" ["read", "*"] [("type", .str "doc")],
                                        wrule "mine" "deny" ["*", "read"] [("type", .str "doc"), ("id", .str "1")]]
    let cx : CondCtx := { o, env := wenv, checker := none }
    Src.compile_decide o noAttr (parseDtExt o) (relExt cx) pol wenv 40 = wout "deny" "explicit_deny" "mine" ∧
      (compiledDecide cx c pol).map encRaw = wout "deny" "explicit_deny" "mine" := ⟨rfl, rfl⟩

end Rbacx.Translated

#print axioms Rbacx.Translated.compile_decide_set_delegates
#print axioms Rbacx.Translated.compile_decide_set
#print axioms Rbacx.Translated.compile_decide_algorithm_error
#print axioms Rbacx.Translated.compile_decide_src
#print axioms Rbacx.Translated.compile_decide_whole
#print axioms Rbacx.Translated.witness_document_order
#print axioms Rbacx.Translated.witness_unmatched_bucket
#print axioms Rbacx.Translated.witness_most_specific_first
