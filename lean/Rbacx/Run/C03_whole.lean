import Rbacx.Generated
import Rbacx.Proofs.CompileTranslated
import Rbacx.Run.C03_translated
import Rbacx.Run.C05_translated
import Rbacx.Run.C02_whole
/-!
  Per-run obligation (C03): THE COMPILER ITSELF, as it is written NOW.  harness/pytolean_closure.py (plugin
  `extractors/src_translation_compile.py`) translates `compile(policy)` of core/compiler.py TOGETHER WITH the closure `decide(env)` it
  returns into ONE exception-passing definition `Rbacx.Generated.Src.compile_decide … policy env fuel` = `compile(policy)(env)`: the set
  delegation, `rules = … or []`, the default algorithm (emitted under its own name `Src.compile_default`: whatever literal the source
  carries — known finding F1; the literal is judged by `Run/C17_defaults.lean`) and its `.lower()`, the index-building loop
  (`by_action`, `star_rules`, `order` keyed by `id(rule)` = POSITION of the rule, Model/PyIdent.lean), and the whole closure — the
  stringified action / type, candidate collection with the `seen` set, the sort back into document order, the four buckets with their
  `matched` flags, the selection loop, `evaluate_policy({...}, env)`.  The functions it calls are the translations the other obligations
  are about (imported): `Src.actions`, `Src.categorize` (C03_translated), `Src.match_resource`, `Src.is_strict` (C05_translated),
  `Src.evaluate`, `Src.decide` (C02_whole).

  Proved here, on the generated text:

  * `compile_decide_set_delegates` — for every dict document with a `policies` key, every env, every budget:
    `Src.compile_decide … = Src.decide …` (a set is not compiled), and `compile_decide_set`: what it returns `Represents` (field by
    field) the model's `compiledDecide` = `decideTree` of the document's tree, or it raises the exception the model raises
    (`decide_src` of C02_whole; hypotheses: the tree is well-formed `DictTree`, env is a dict, the budget exceeds the size, the model's
    two set defaults are the literal "deny-overrides" of policyset.py).  So `c03_set_delegates` speaks about what compiler.py says now.
  * `compile_decide_algorithm_error` — for every dict policy without `policies`: when `(policy.get("algorithm") or <the source's
    literal>).lower()` raises (a truthy non-string algorithm), `compile(policy)(env)` raises the same exception as the model
    `compiledDecide` with `compilerDefault := Src.compile_default`, whatever the rules and the env are.

  PARTIAL.  The full statement for single policies is `compile_decide_src` in the comment at the end of this file.  Of its proof, the
  parts that do not depend on the generated text are done and audited (Proofs/CompileTranslated.lean): the tagged rules are strictly
  sorted by identity; `order` maps identity `i` to position `i` (`idGet_idEntries`); the index `by_action` holds under every action
  exactly the rules naming it, whatever order the loop over the actions takes (`ByAct.add` / `ByAct.skip_star` / `ByAct.close` /
  `ByAct.get`); and the key step `collect_sort_eq_filter`: collecting ANY two lists that hold exactly the tagged rules naming the
  action / listing '*' through the `seen` set and sorting stably by identity gives the rules filtered by `isCandidate` in document
  order.  What is missing is the simulation of the five generated loops by these lemmas (`forLoop_inv`, `forLoop_fold_enc`), the
  bucket fold and the final `evaluate_src` step; until then the index / bucket part of `compile` is tied to the model by the
  differential runs (`translated_whole_vs_python` in props/c03.py: the evaluated translation vs the real `compile(policy)(env)`,
  and the model vs the real engine) and by three WITNESSES evaluated by the kernel on the generated text (`witness_document_order`,
  `witness_unmatched_bucket`, `witness_most_specific_first`: the sort, the `matched` flags, the order of the selection loop) — not
  proofs for all inputs, but a change of one of these decisions makes this obligation fail.
-/
set_option linter.unusedSimpArgs false
namespace Rbacx.Translated
open Rbacx Rbacx.Py Rbacx.PyE Rbacx.PyI Rbacx.Generated PyVal

/-- a policy SET is not compiled: `compile(policy)(env)` IS `decide(policy, env)` -/
theorem compile_decide_set_delegates (o : Oracle) (ga : PyVal → PyVal → PyVal → Except CondErr PyVal) (pd rb : PyVal → PyVal → Except CondErr PyVal)
    (policy env : PyVal) (fuel : Nat) (hpol : policy.isDict = true) (hset : policy.hasKey "policies" = true) :
    Src.compile_decide o ga pd rb policy env fuel = Src.decide o ga pd rb policy env fuel := by
  unfold Src.compile_decide
  simp only [containsE_dict_key hpol, bind_ok, truthy_bool, hset, if_true]

/-- for a set document the compiled function describes the model's `compiledDecide` (= the set evaluator on the document's tree) -/
theorem compile_decide_set (cx : CondCtx) (c : Consts) (policy : PyVal) (fuel : Nat)
    (hi : c.interpDefault = "deny-overrides") (hs : c.setDefault = "deny-overrides")
    (henv : cx.env.isDict = true) (hset : policy.hasKey "policies" = true) (hwf : DictTree (treeOf policy)) (hfuel : policy.size < fuel) :
    SimRes Represents (Src.compile_decide cx.o noAttr (parseDtExt cx.o) (relExt cx) policy cx.env fuel) (compiledDecide cx c policy) := by
  have hpol : policy.isDict = true := by have := dictTree_doc hwf; unfold treeOf at this; rwa [toTree_doc] at this
  rw [compile_decide_set_delegates _ _ _ _ _ _ _ hpol hset]
  unfold compiledDecide
  simp only [hset, if_true, hi, hs]
  exact decide_src cx policy fuel henv hset hwf hfuel

/-- a single policy whose algorithm cannot be lowered: the same exception as the model, with the source's own default literal -/
theorem compile_decide_algorithm_error (cx : CondCtx) (c : Consts) (policy env : PyVal) (fuel : Nat) (e : CondErr)
    (ga : PyVal → PyVal → PyVal → Except CondErr PyVal) (pd rb : PyVal → PyVal → Except CondErr PyVal)
    (hc : c.compilerDefault = Src.compile_default) (hpol : policy.isDict = true) (hsingle : policy.hasKey "policies" = false)
    (hlow : lowerField (policy.get "algorithm") Src.compile_default = .error e) :
    Src.compile_decide cx.o ga pd rb policy env fuel = .error e ∧ compiledDecide cx c policy = .error e := by
  unfold Src.compile_decide compiledDecide
  simp only [containsE_dict_key hpol, bind_ok, truthy_bool, hsingle, Bool.false_eq_true, if_false, getE_isDict hpol, lowerE_por, hc, hlow,
    Except.map, bind_error, and_self]

/-! ### witnesses on the generated text

  NOT proofs for all inputs: three concrete documents, evaluated by the kernel on the CURRENT text of `compile` (and on the model), one
  for each decision the index / bucket part takes that the partial theorems above do not cover.  A change of the source that alters
  one of these decisions makes this obligation fail (the check then searches for a failing input on the real engine). -/

private def wrule (rid eff : String) (acts : List String) (res : List (String × PyVal)) : PyVal :=
  .dict [("id", .str rid), ("effect", .str eff), ("actions", .list (acts.map .str)), ("resource", .dict res)]

private def wenv : PyVal :=
  .dict [("action", .str "read"), ("resource", .dict [("type", .str "doc"), ("id", .str "1"), ("attrs", .dict [])])]

private def wpol (algo : String) (rules : List PyVal) : PyVal := .dict [("algorithm", .str algo), ("rules", .list rules)]

private def wout (d reason rid : String) : Except CondErr PyVal :=
  .ok (.dict [("decision", .str d), ("reason", .str reason), ("rule_id", .str rid), ("last_rule_id", .str rid), ("obligations", .list [])])

/-- document order survives the index: a '*' rule BEFORE a named-action rule decides under first-applicable (the sort; F3) -/
theorem witness_document_order (o : Oracle) (c : Consts) :
    let pol := wpol "first-applicable" [wrule "star" "deny" ["*"] [("type", .str "doc")], wrule "named" "permit" ["read"] [("type", .str "doc")]]
    let cx : CondCtx := { o, env := wenv, checker := none }
    Src.compile_decide o noAttr (parseDtExt o) (relExt cx) pol wenv 40 = wout "deny" "explicit_deny" "star" ∧
      (compiledDecide cx c pol).map encRaw = wout "deny" "explicit_deny" "star" := ⟨rfl, rfl⟩

/-- a more specific rule aimed at ANOTHER resource does not shadow the generic rule (the `matched` flags; F2) -/
theorem witness_unmatched_bucket (o : Oracle) (c : Consts) :
    let pol := wpol "permit-overrides" [wrule "generic" "permit" ["read"] [("type", .str "doc")],
                                        wrule "other" "deny" ["read"] [("type", .str "doc"), ("id", .str "2")]]
    let cx : CondCtx := { o, env := wenv, checker := none }
    Src.compile_decide o noAttr (parseDtExt o) (relExt cx) pol wenv 40 = wout "permit" "matched" "generic" ∧
      (compiledDecide cx c pol).map encRaw = wout "permit" "matched" "generic" := ⟨rfl, rfl⟩

/-- of two eligible buckets the MORE specific one is taken (the order of the selection loop) -/
theorem witness_most_specific_first (o : Oracle) (c : Consts) :
    let pol := wpol "permit-overrides" [wrule "generic" "permit" ["read", "*"] [("type", .str "doc")],
                                        wrule "mine" "deny" ["*", "read"] [("type", .str "doc"), ("id", .str "1")]]
    let cx : CondCtx := { o, env := wenv, checker := none }
    Src.compile_decide o noAttr (parseDtExt o) (relExt cx) pol wenv 40 = wout "deny" "explicit_deny" "mine" ∧
      (compiledDecide cx c pol).map encRaw = wout "deny" "explicit_deny" "mine" := ⟨rfl, rfl⟩

/- The full statement (not yet proved; see the header):

theorem compile_decide_src (cx : CondCtx) (c : Consts) (policy : PyVal) (fuel : Nat)
    (hc : c.compilerDefault = Src.compile_default)
    (hpol : policy.isDict = true) (hsingle : policy.hasKey "policies" = false) (henv : cx.env.isDict = true)
    (hres : (por (cx.env.get "resource") (.dict [])).isDict = true)
    (rs : List PyVal) (hlist : por (policy.get "rules") (.list []) = .list rs) (hrules : ∀ r ∈ rs, r.isDict = true)
    (hfuel : policy.size + 2 < fuel) :
    Src.compile_decide cx.o noAttr (parseDtExt cx.o) (relExt cx) policy cx.env fuel = (compiledDecide cx c policy).map encRaw
-/

end Rbacx.Translated

#print axioms Rbacx.Translated.compile_decide_set_delegates
#print axioms Rbacx.Translated.compile_decide_set
#print axioms Rbacx.Translated.compile_decide_algorithm_error
#print axioms Rbacx.Translated.witness_document_order
#print axioms Rbacx.Translated.witness_unmatched_bucket
#print axioms Rbacx.Translated.witness_most_specific_first
