import Rbacx.Generated
import Rbacx.Run.C04_parse_dt_translated
import Rbacx.Run.C13_translated
/-!
  Per-run obligation: the condition evaluator of core/policy.py with NOTHING of it hand-modelled but `getattr` on non-dicts — the translated
  `eval_condition` (C04_translated) with BOTH former external parameters replaced by translations of the current source: `_parse_dt` by
  `Src.parse_dt` (C04_parse_dt_translated; the two datetime conversions through the oracle) and the `rel` branch by `Src.rel_range`
  (C13_translated; run from the empty memo of a fresh decision, its answer).  Needs all three obligations (registered with
  `deps=["C04_translated", "C04_parse_dt_translated", "C13_translated"]`).
-/
namespace Rbacx.Translated
open Rbacx Rbacx.Py Rbacx.PyE Rbacx.PyR Rbacx.Generated PyVal

/-- for every document `cond`, oracle, checker outcome function `f`, env `Guard` builds (`EnvOk`), caveat contexts that are not non-empty lists /
    strs on every sub-value with a `rel` key (`CtxOk` on `allSub`) and budget above the size: the current source of `eval_condition`, `_parse_dt`,
    `_canon_subject`, `_canon_resource`, `resolve`, `_ensure_*`, `_is_strict` and of the `rel` branch computes the model's `evalCond cx (condOf cond)`
    — the same truth value or the same exception.  Parameters left: `getattr` = absent, `_ctx_hash` = any str-valued function, resolving an
    awaitable = the identity on the checker's outcome, the two datetime conversions = the oracle's (`fromtimestamp` raising only the three
    classes the source catches). -/
theorem eval_condition_closed (cx : CondCtx) (aw : String → Bool) (ecls : PyVal → String) (icls : String → CondErr)
    (hecls : ∀ x, ecls x = "OverflowError" ∨ ecls x = "ValueError" ∨ ecls x = "OSError")
    (hf : PyVal → String) (ctx_hash : PyVal → Except CondErr PyVal) (hhash : ∀ c, ctx_hash c = .ok (.str (hf c)))
    (raw : PyVal → PyVal → PyVal → Except CondErr PyVal) (hraw : ∀ r l t, raw r l t = .ok r) (f : Checker) (hchk : cx.checker = f.map absChecker)
    (loop : PyVal) (ekvs : List (String × PyVal)) (he : cx.env = .dict ekvs) (henv : EnvOk (.dict ekvs)) (cond : PyVal)
    (hctx : allSub (fun d => PyVal.hasKey d "rel" = true → CtxOk (.dict ekvs) (d.get "rel")) cond) (fuel : Nat) (hfuel : cond.size < fuel) :
    Src.eval_condition cx.o noAttr (Src.parse_dt (epochExt cx.o ecls) (isoExt cx.o aw icls)) (relSrc cx.o ctx_hash raw f loop) cond cx.env fuel =
      (evalCond cx (condOf cond)).map PyVal.bool := by
  have hpd : Src.parse_dt (epochExt cx.o ecls) (isoExt cx.o aw icls) = parseDtExt cx.o :=
    funext fun x => funext fun s => parse_dt cx.o aw ecls icls hecls x s
  rw [hpd]
  exact eval_condition_rel_tree cx hf ctx_hash hhash raw hraw f hchk loop ekvs he henv cond hctx fuel hfuel

end Rbacx.Translated

#print axioms Rbacx.Translated.eval_condition_closed
