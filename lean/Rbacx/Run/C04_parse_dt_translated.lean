import Rbacx.Generated
import Rbacx.Proofs.CondTranslated
import Rbacx.Proofs.RelTranslated
import Rbacx.Run.C04_translated
/-!
  Per-run obligation: `_parse_dt` of core/policy.py as it is written NOW — translated statement by statement into
  `Rbacx.Generated.Src.parse_dt` by harness/pytolean_rel.py (plugin `extractors/src_translation_rel.py`; Python operations:
  Model/PyExcept.lean, Model/PyRel.lean) — computes the model's `parseDt` (Model/Cond.lean; as the external `parseDtExt` of
  `Src.eval_condition`, Proofs/CondTranslated.lean): the parsed instant as an aware datetime, or ConditionTypeError — NEVER another
  exception — for every value, every `strict` argument and every oracle.

  The two stdlib conversions stay oracles: the external expressions `datetime.fromtimestamp(float(x), tz=timezone.utc)` and
  `datetime.fromisoformat(x.replace('Z', '+00:00'))` are instantiated with `epochExt` / `isoExt` (Proofs/RelTranslated.lean): the
  oracle's instant as an aware / aware-or-naive datetime, or an exception of ANY of the classes the source catches there.
-/
namespace Rbacx.Translated
open Rbacx Rbacx.Py Rbacx.PyE Rbacx.PyR Rbacx.Generated PyVal

/-- strict mode: only an aware datetime is accepted (returned as it is); everything else is ConditionTypeError -/
theorem parse_dt_strict (o : Oracle) (ft fi : PyVal → Except CondErr PyVal) (x strict : PyVal) (hs : strict.truthy = true) :
    Src.parse_dt ft fi x strict = parseDtExt o x strict := by
  unfold Src.parse_dt parseDtExt parseDt
  simp only [hs, if_true]
  cases x <;> try rfl
  next aware m => cases aware <;> rfl

/-- THE tie for `_parse_dt`: for every value `x`, every `strict` argument, every oracle `o`, every awareness `aw` of what
    `fromisoformat` returns and every exception class the two conversions may raise (`ecls x` among the three classes the source
    catches around `fromtimestamp`; ANY exception around `fromisoformat`), the translated `_parse_dt` = the model's `parseDt` -/
theorem parse_dt (o : Oracle) (aw : String → Bool) (ecls : PyVal → String) (icls : String → CondErr)
    (hecls : ∀ x, ecls x = "OverflowError" ∨ ecls x = "ValueError" ∨ ecls x = "OSError") (x strict : PyVal) :
    Src.parse_dt (epochExt o ecls) (isoExt o aw icls) x strict = parseDtExt o x strict := by
  cases hs : strict.truthy with
  | true => exact parse_dt_strict o _ _ x strict hs
  | false =>
    unfold Src.parse_dt parseDtExt parseDt
    simp only [hs, Bool.false_eq_true, if_false]
    cases x with
    | dt aware m => cases aware <;> rfl
    | int n =>
      show tryExcept (epochExt o ecls (.int n)) _ _ = _
      exact tryExcept_epochExt o ecls hecls (.int n)
    | float f =>
      show tryExcept (epochExt o ecls (.float f)) _ _ = _
      exact tryExcept_epochExt o ecls hecls (.float f)
    | str s =>
      show tryBind (isoExt o aw icls (.str s)) _ _ _ = _
      simp only [isoExt]
      cases o.isoInstant s with
      | none => simp only [tryBind, catches_exception, if_true]; rfl
      | some m => cases aw s <;> rfl
    | _ => rfl

/-- never another exception: whatever `_parse_dt` raises is ConditionTypeError -/
theorem parse_dt_only_type_mismatch (o : Oracle) (aw : String → Bool) (ecls : PyVal → String) (icls : String → CondErr)
    (hecls : ∀ x, ecls x = "OverflowError" ∨ ecls x = "ValueError" ∨ ecls x = "OSError") (x strict : PyVal) (e : CondErr)
    (h : Src.parse_dt (epochExt o ecls) (isoExt o aw icls) x strict = .error e) : e = .typeMismatch := by
  rw [parse_dt o aw ecls icls hecls] at h
  exact parseDtExt_err o x strict e h

/-- COROLLARY: the external parameter `parse_dt` of the translated `eval_condition` (C04_translated) instantiated with the TRANSLATED
    `_parse_dt` — the two datetime conversions through the oracle — instead of the hand-written `parseDtExt`: the whole translated
    condition evaluator is still the model's `evalCond`, for every document, environment, oracle and checker -/
theorem eval_condition_with_parse_dt (cx : CondCtx) (aw : String → Bool) (ecls : PyVal → String) (icls : String → CondErr)
    (hecls : ∀ x, ecls x = "OverflowError" ∨ ecls x = "ValueError" ∨ ecls x = "OSError") (cond : PyVal) (fuel : Nat) (hfuel : cond.size < fuel) :
    Src.eval_condition cx.o noAttr (Src.parse_dt (epochExt cx.o ecls) (isoExt cx.o aw icls)) (relExt cx) cond cx.env fuel =
      (evalCond cx (condOf cond)).map PyVal.bool := by
  have h : Src.parse_dt (epochExt cx.o ecls) (isoExt cx.o aw icls) = parseDtExt cx.o :=
    funext fun x => funext fun s => parse_dt cx.o aw ecls icls hecls x s
  rw [h]
  exact eval_condition cx cond fuel hfuel

end Rbacx.Translated

#print axioms Rbacx.Translated.parse_dt_strict
#print axioms Rbacx.Translated.parse_dt
#print axioms Rbacx.Translated.parse_dt_only_type_mismatch
#print axioms Rbacx.Translated.eval_condition_with_parse_dt
