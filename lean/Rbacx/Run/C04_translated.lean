import Rbacx.Generated
import Rbacx.Proofs.CondTranslated
import Rbacx.Proofs.Total
/-!
  Per-run obligation: the CONDITION EVALUATOR of core/policy.py as it is written NOW — `eval_condition` and its helpers `_is_strict`,
  `_ensure_str`, `_as_collection`, `_ensure_numeric_strict`, `resolve`, translated statement by statement in EXCEPTION-PASSING style
  into `Rbacx.Generated.Src.*` by harness/pytolean_except.py (plugin `extractors/src_translation_cond.py`; Python operations:
  Model/PyExcept.lean) — computes the hand-written model (`evalCond`, `evalBin`, `resolve`, `numericPair`, `isStrict` of
  Model/Cond.lean), the functions the theorems `Rbacx.C04.*` / `Rbacx.C06.*` are about.  `.error .typeMismatch` = the source raised
  ConditionTypeError, `.error (.raised cls)` = it raised the builtin exception `cls`: the equalities say WHICH exception, too.

  Externals (function parameters of the translation, instantiated here with the model's counterparts): `getattr` = `noAttr` (the
  attribute is absent, DESIGN §2.1 ii), `_parse_dt` = `parseDt` through the oracle, `rel_branch` = the model's `evalRel`.
-/
namespace Rbacx.Translated
open Rbacx Rbacx.Py Rbacx.PyE Rbacx.Generated PyVal

/-! ### stage 1: helpers -/

/-- `_is_strict(env)`: for a non-dict `env` the AttributeError of `env.get` is caught by `except Exception` -/
theorem is_strict_e (env : PyVal) : Src.is_strict_e env = .ok (.bool (isStrict env)) := by
  cases env <;> rfl

/-- `_ensure_str(a, b)` -/
theorem ensure_str (a b : PyVal) : Src.ensure_str a b = strPair a b := by
  cases a <;> cases b <;> rfl

/-- `_as_collection(x)` -/
theorem as_collection (x : PyVal) : Src.as_collection x = asCollection x := by
  cases x <;> rfl

/-- `_ensure_numeric_strict(a, b)`: the model's `numericPair` (bools excluded, an int too large for a double is a type mismatch) -/
theorem ensure_numeric_strict (a b : PyVal) : Src.ensure_numeric_strict a b = (numericPair a b).map encFloats := by
  unfold Src.ensure_numeric_strict
  cases a <;> cases b <;> try rfl
  all_goals
    simp only [numericPair, intToFloat?, floatE, truthy_por, truthy_pand, truthy_isInstance_bool, truthy_isInstance_num, PyVal.isBool,
      PyVal.isIntOrFloat, PyVal.isNumber, Bool.or_self, Bool.and_self, Bool.false_eq_true, if_false, if_true]
    repeat' split
    all_goals first | rfl | simp_all [tryExcept, catches, PyE.bind, PyE.raise, excOf, Except.map, encFloats]

/-- `resolve(token, env)` with the `getattr` fallback answering "absent": never raises, and is the model's `resolve` -/
theorem resolve (o : Oracle) (token env : PyVal) : Src.resolve o noAttr token env = .ok (Rbacx.resolve o token env) := by
  unfold Src.resolve Rbacx.resolve
  cases token with
  | dict kvs =>
    simp only [truthy_isInstance_dict, PyVal.isDict, if_true, containsE, bind_ok, truthy, Bool.true_and]
    cases h : PyVal.hasKey (PyVal.dict kvs) "attr" with
    | false => rfl
    | true =>
      have hk : ∃ v, lookup "attr" kvs = some v := by
        simp only [PyVal.hasKey] at h
        exact Option.isSome_iff_exists.mp h
      obtain ⟨v, hv⟩ := hk
      simp only [if_true, itemE, hv, bind_ok, strO, splitE, iterE, isIterable, Rbacx.Py.iter, PyVal.get, Option.getD_some]
      rw [resolve_loop _ (fun cur seg => by cases cur <;> rfl)]
      rfl
  | _ => rfl

/-! ### stage 2: the fifteen binary operators (`if '==' in cond:` … `if 'between' in cond:`) -/

theorem eval_binops_chain (cx : CondCtx) (kvs : List (String × PyVal)) :
    Src.eval_binops cx.o noAttr (parseDtExt cx.o) (.dict kvs) cx.env (.bool cx.strict) =
      chainModel cx (.dict kvs) binOpsInOrder := by
  unfold Src.eval_binops
  simp only [binop_head]
  simp only [resolve, bind_ok, ensure_numeric_strict, ensure_str, as_collection]
  unfold binOpsInOrder
  refine opBranch_step cx kvs .eq _ _ _ (fun a b => rfl) ?_
  refine opBranch_step cx kvs .ne _ _ _ (fun a b => rfl) ?_
  refine opBranch_step cx kvs .gt _ _ _ (fun a b => ?_) ?_
  · cases h : numericPair (Rbacx.resolve cx.o a cx.env) (Rbacx.resolve cx.o b cx.env) with
    | error e => simp only [evalOp, h]; rfl
    | ok p => obtain ⟨m, n⟩ := p; simp only [evalOp, h]; rfl
  refine opBranch_step cx kvs .lt _ _ _ (fun a b => ?_) ?_
  · cases h : numericPair (Rbacx.resolve cx.o a cx.env) (Rbacx.resolve cx.o b cx.env) with
    | error e => simp only [evalOp, h]; rfl
    | ok p => obtain ⟨m, n⟩ := p; simp only [evalOp, h]; rfl
  refine opBranch_step cx kvs .ge _ _ _ (fun a b => ?_) ?_
  · cases h : numericPair (Rbacx.resolve cx.o a cx.env) (Rbacx.resolve cx.o b cx.env) with
    | error e => simp only [evalOp, h]; rfl
    | ok p => obtain ⟨m, n⟩ := p; simp only [evalOp, h]; rfl
  refine opBranch_step cx kvs .le _ _ _ (fun a b => ?_) ?_
  · cases h : numericPair (Rbacx.resolve cx.o a cx.env) (Rbacx.resolve cx.o b cx.env) with
    | error e => simp only [evalOp, h]; rfl
    | ok p => obtain ⟨m, n⟩ := p; simp only [evalOp, h]; rfl
  refine opBranch_step cx kvs .contains _ _ _ (fun a b => ?_) ?_
  · generalize Rbacx.resolve cx.o a cx.env = x
    generalize Rbacx.resolve cx.o b cx.env = y
    cases x <;> cases y <;> rfl
  refine opBranch_step cx kvs .isIn _ _ _ (fun a b => ?_) ?_
  · generalize Rbacx.resolve cx.o a cx.env = x
    generalize Rbacx.resolve cx.o b cx.env = y
    cases x <;> cases y <;> first | rfl | skip
    next xs ys =>
      show PyE.bind (anyE ys fun val => containsE (.list xs) val) (fun t => Except.ok (PyE.Flow.ret t)) = _
      rw [containsE_list, anyE_ok]; rfl
  refine opBranch_step cx kvs .hasAll _ _ _ (fun a b => ?_) ?_
  · generalize Rbacx.resolve cx.o a cx.env = x
    generalize Rbacx.resolve cx.o b cx.env = y
    cases x <;> cases y <;> first | rfl | skip
    next xs ys =>
      show PyE.bind (allE ys fun v => containsE (.list xs) v) (fun t => Except.ok (PyE.Flow.ret t)) = _
      rw [containsE_list, allE_ok]; rfl
  refine opBranch_step cx kvs .hasAny _ _ _ (fun a b => ?_) ?_
  · generalize Rbacx.resolve cx.o a cx.env = x
    generalize Rbacx.resolve cx.o b cx.env = y
    cases x <;> cases y <;> first | rfl | skip
    next xs ys =>
      show PyE.bind (anyE ys fun v => containsE (.list xs) v) (fun t => Except.ok (PyE.Flow.ret t)) = _
      rw [containsE_list, anyE_ok]; rfl
  refine opBranch_step cx kvs .startsWith _ _ _ (fun a b => ?_) ?_
  · generalize Rbacx.resolve cx.o a cx.env = x
    generalize Rbacx.resolve cx.o b cx.env = y
    cases x <;> cases y <;> rfl
  refine opBranch_step cx kvs .endsWith _ _ _ (fun a b => ?_) ?_
  · generalize Rbacx.resolve cx.o a cx.env = x
    generalize Rbacx.resolve cx.o b cx.env = y
    cases x <;> cases y <;> rfl
  refine opBranch_step cx kvs .before _ _ _ (fun a b => ?_) ?_
  · simp only [parseDtExt, truthy, evalOp]
    cases parseDt cx.o cx.strict (Rbacx.resolve cx.o a cx.env) <;>
      cases parseDt cx.o cx.strict (Rbacx.resolve cx.o b cx.env) <;> rfl
  refine opBranch_step cx kvs .after _ _ _ (fun a b => ?_) ?_
  · simp only [parseDtExt, truthy, evalOp]
    cases parseDt cx.o cx.strict (Rbacx.resolve cx.o a cx.env) <;>
      cases parseDt cx.o cx.strict (Rbacx.resolve cx.o b cx.env) <;> rfl
  refine opBranch_step cx kvs .between _ _ _ (fun a b => ?_) rfl
  · simp only [parseDtExt, truthy_bool, evalOp]
    generalize Rbacx.resolve cx.o b cx.env = y
    cases parseDt cx.o cx.strict (Rbacx.resolve cx.o a cx.env) with
    | error e => rfl
    | ok d =>
      cases y with
      | list ys =>
        match ys with
        | [] => rfl
        | [_] => rfl
        | _ :: _ :: _ :: _ => rfl
        | [lo, hi] =>
          show (PyE.bind (Except.map (dt true) (parseDt cx.o cx.strict (Rbacx.resolve cx.o lo cx.env))) fun t104 =>
                PyE.bind (Except.map (dt true) (parseDt cx.o cx.strict (Rbacx.resolve cx.o hi cx.env))) fun t107 =>
                PyE.bind (PyE.bind (leE t104 (dt true d)) fun t108 => if t108.truthy then leE (dt true d) t107 else Except.ok t108)
                  fun t => Except.ok (PyE.Flow.ret t)) =
              Except.map retBool (do
                let s ← parseDt cx.o cx.strict (Rbacx.resolve cx.o lo cx.env)
                let e ← parseDt cx.o cx.strict (Rbacx.resolve cx.o hi cx.env)
                pure (decide (s ≤ d) && decide (d ≤ e)))
          cases parseDt cx.o cx.strict (Rbacx.resolve cx.o lo cx.env) with
          | error e => rfl
          | ok s =>
            cases parseDt cx.o cx.strict (Rbacx.resolve cx.o hi cx.env) with
            | error e => rfl
            | ok e =>
              show (PyE.bind (PyE.bind (leE (dt true s) (dt true d)) fun t108 => if t108.truthy then leE (dt true d) (dt true e) else Except.ok t108)
                  fun t => Except.ok (PyE.Flow.ret t)) = Except.ok (retBool (decide (s ≤ d) && decide (d ≤ e)))
              simp only [leE, BEq.rfl, if_true, bind_ok, truthy_bool]
              cases decide (s ≤ d) <;> rfl
      | _ => rfl

/-- `Src.eval_binops` on a dict `cond`: the first operator key present (in the order of the `if` chain) is evaluated by the model's
    `evalBin` — same value, same exception —, and without any operator key control leaves the range -/
theorem eval_binops (cx : CondCtx) (kvs : List (String × PyVal)) :
    Src.eval_binops cx.o noAttr (parseDtExt cx.o) (.dict kvs) cx.env (.bool cx.strict) =
      match binOpsInOrder.find? (fun op => PyVal.hasKey (.dict kvs) op.key) with
      | some op => (evalBin cx op ((PyVal.dict kvs).get op.key)).map retBool
      | Option.none => .ok .next := by
  exact (eval_binops_chain cx kvs).trans (chainModel_eq cx _ _)

/-! ### stage 3: the whole function — non-dict conditions, `rel` (external), the operators, `and` / `or` / `not`, `return False` -/

theorem containsE_key (kvs : List (String × PyVal)) (k : String) :
    containsE (.dict kvs) (.str k) = .ok (.bool (PyVal.hasKey (.dict kvs) k)) := rfl

theorem itemE_key (kvs : List (String × PyVal)) (k : String) (h : PyVal.hasKey (.dict kvs) k = true) :
    itemE (.dict kvs) (.str k) = .ok ((PyVal.dict kvs).get k) := by
  simp only [PyVal.hasKey] at h
  obtain ⟨v, hv⟩ := Option.isSome_iff_exists.mp h
  simp only [itemE, PyVal.get, hv, Option.getD_some]

/-- a condition that is not a dict is its truth value (any positive budget) -/
theorem eval_condition_lit (cx : CondCtx) (c : PyVal) (n : Nat) (h : c.isDict = false) :
    Src.eval_condition cx.o noAttr (parseDtExt cx.o) (relExt cx) c cx.env (n + 1) = .ok (.bool c.truthy) := by
  cases c <;> first | rfl | (simp [PyVal.isDict] at h)

/-- the operand of `and` (resp. `or` below): not iterable ⇒ ConditionTypeError; a list ⇒ its items, evaluated recursively, left to right
    with short-circuit; a str / dict ⇒ its characters / keys, each a non-dict condition -/
theorem and_operand (cx : CondCtx) (n : Nat)
    (ih : ∀ c : PyVal, c.size < n → Src.eval_condition cx.o noAttr (parseDtExt cx.o) (relExt cx) c cx.env n =
      (evalCond cx (parseCond n c)).map PyVal.bool) (v : PyVal) (hv : v.size < n) :
    (if (!(PyE.isInstance v ["Iterable"]).truthy) = true then PyE.raise "ConditionTypeError"
     else PyE.bind (iterE v) fun t => allE t fun c => Src.eval_condition cx.o noAttr (parseDtExt cx.o) (relExt cx) c cx.env n) =
    (evalCond cx (Cond.all (parseSubsWith (parseCond n) v))).map PyVal.bool := by
  obtain ⟨n', rfl⟩ : ∃ n', n = n' + 1 := ⟨n - 1, by have := size_pos v; omega⟩
  rcases subs_cases (parseCond (n' + 1)) v with ⟨h1, h2⟩ | ⟨xs, rfl, h2⟩ | ⟨h1, hnd, h2⟩
  · simp only [truthy_isInstance_iterable, h1, h2, evalCond]; rfl
  · rw [h2]
    simp only [truthy_isInstance_iterable, isIterable, Bool.not_true, Bool.false_eq_true, if_false, iterE, if_true, Rbacx.Py.iter, bind_ok, evalCond]
    apply allE_evalAll
    intro x hx
    have := size_mem x xs hx
    simp only [PyVal.size] at hv
    exact ih x (by omega)
  · rw [h2]
    simp only [truthy_isInstance_iterable, h1, Bool.not_true, Bool.false_eq_true, if_false, iterE, if_true, bind_ok, evalCond]
    apply allE_evalAll
    intro x hx
    rw [eval_condition_lit cx x n' (hnd x hx)]; rfl

theorem or_operand (cx : CondCtx) (n : Nat)
    (ih : ∀ c : PyVal, c.size < n → Src.eval_condition cx.o noAttr (parseDtExt cx.o) (relExt cx) c cx.env n =
      (evalCond cx (parseCond n c)).map PyVal.bool) (v : PyVal) (hv : v.size < n) :
    (if (!(PyE.isInstance v ["Iterable"]).truthy) = true then PyE.raise "ConditionTypeError"
     else PyE.bind (iterE v) fun t => anyE t fun c => Src.eval_condition cx.o noAttr (parseDtExt cx.o) (relExt cx) c cx.env n) =
    (evalCond cx (Cond.any (parseSubsWith (parseCond n) v))).map PyVal.bool := by
  obtain ⟨n', rfl⟩ : ∃ n', n = n' + 1 := ⟨n - 1, by have := size_pos v; omega⟩
  rcases subs_cases (parseCond (n' + 1)) v with ⟨h1, h2⟩ | ⟨xs, rfl, h2⟩ | ⟨h1, hnd, h2⟩
  · simp only [truthy_isInstance_iterable, h1, h2, evalCond]; rfl
  · rw [h2]
    simp only [truthy_isInstance_iterable, isIterable, Bool.not_true, Bool.false_eq_true, if_false, iterE, if_true, Rbacx.Py.iter, bind_ok, evalCond]
    apply anyE_evalAny
    intro x hx
    have := size_mem x xs hx
    simp only [PyVal.size] at hv
    exact ih x (by omega)
  · rw [h2]
    simp only [truthy_isInstance_iterable, h1, Bool.not_true, Bool.false_eq_true, if_false, iterE, if_true, bind_ok, evalCond]
    apply anyE_evalAny
    intro x hx
    rw [eval_condition_lit cx x n' (hnd x hx)]; rfl

/-- with any budget above the size of the document, the translated `eval_condition` is the model's evaluation of the document parsed
    with that budget -/
theorem eval_condition_parse (cx : CondCtx) : ∀ (n : Nat) (c : PyVal), c.size < n →
    Src.eval_condition cx.o noAttr (parseDtExt cx.o) (relExt cx) c cx.env n = (evalCond cx (parseCond n c)).map PyVal.bool := by
  intro n
  induction n with
  | zero => intro c h; omega
  | succ n ih =>
    intro c h
    cases c with
    | dict kvs =>
      have hsub : ∀ k, PyVal.hasKey (.dict kvs) k = true → ((PyVal.dict kvs).get k).size < n := by
        intro k hk
        have := size_get_lt k kvs hk
        omega
      have hbin := eval_binops cx kvs
      simp only [CondCtx.strict] at hbin
      unfold Src.eval_condition
      simp only [is_strict_e, bind_ok, truthy_pnot, truthy_isInstance_dict, PyVal.isDict, Bool.not_true, Bool.false_eq_true, if_false,
        containsE_key, truthy_bool, hbin, parseCond]
      by_cases hrel : PyVal.hasKey (.dict kvs) "rel" = true
      · simp only [hrel, if_true, evalCond]; rfl
      · simp only [hrel, Bool.false_eq_true, if_false]
        cases List.find? (fun op => PyVal.hasKey (.dict kvs) op.key) binOpsInOrder with
        | some op => simp only [evalCond]; cases evalBin cx op ((PyVal.dict kvs).get op.key) <;> rfl
        | none =>
          simp only [afterRange]
          by_cases hand : PyVal.hasKey (.dict kvs) "and" = true
          · simp only [hand, if_true, itemE_key kvs "and" hand, bind_ok]
            exact and_operand cx n ih _ (hsub "and" hand)
          · simp only [hand, Bool.false_eq_true, if_false]
            by_cases hor : PyVal.hasKey (.dict kvs) "or" = true
            · simp only [hor, if_true, itemE_key kvs "or" hor, bind_ok]
              exact or_operand cx n ih _ (hsub "or" hor)
            · simp only [hor, Bool.false_eq_true, if_false]
              by_cases hnot : PyVal.hasKey (.dict kvs) "not" = true
              · simp only [hnot, if_true, itemE_key kvs "not" hnot, bind_ok, ih _ (hsub "not" hnot), evalCond]
                cases evalCond cx (parseCond n ((PyVal.dict kvs).get "not")) <;> rfl
              · simp only [hnot, Bool.false_eq_true, if_false, evalCond]; rfl
    | _ => exact eval_condition_lit cx _ n rfl

/-- THE tie for C04/C06: with a budget above the size of the document (`size` counts the nodes of the JSON value; the evaluator
    `Run/SrcEvalCond.lean` uses `size + 1`), the condition evaluator as the source has it NOW computes the model's
    `evalCond cx (condOf cond)` — the same truth value, or the same exception (`typeMismatch` = ConditionTypeError, `raised cls`) —
    for every document `cond` (dict or not, well-formed or not), every environment `cx.env`, every oracle and every relationship
    checker.  Externals: `getattr` answers "absent" (`noAttr`), `_parse_dt` is the model's `parseDt` through the oracle
    (`parseDtExt`), the `rel` branch is the model's `evalRel` (`relExt`). -/
theorem eval_condition (cx : CondCtx) (cond : PyVal) (fuel : Nat) (hfuel : cond.size < fuel) :
    Src.eval_condition cx.o noAttr (parseDtExt cx.o) (relExt cx) cond cx.env fuel = (evalCond cx (condOf cond)).map PyVal.bool := by
  rw [eval_condition_parse cx fuel cond hfuel, parseCond_condOf fuel cond hfuel]

/-- the budget never changes an answer: two budgets above the size give the same result -/
theorem eval_condition_any_fuel (cx : CondCtx) (cond : PyVal) (f1 f2 : Nat) (h1 : cond.size < f1) (h2 : cond.size < f2) :
    Src.eval_condition cx.o noAttr (parseDtExt cx.o) (relExt cx) cond cx.env f1 =
      Src.eval_condition cx.o noAttr (parseDtExt cx.o) (relExt cx) cond cx.env f2 := by
  rw [eval_condition cx cond f1 h1, eval_condition cx cond f2 h2]

/-- C06 on the translated source: what a binary operator raises on a two-element operand list is ConditionTypeError and nothing else -/
theorem eval_binops_never_raises (cx : CondCtx) (op : BinOp) (a b : PyVal) (e : CondErr)
    (h : evalBin cx op (.list [a, b]) = .error e) : e = .typeMismatch := evalBin_err cx op a b e h

end Rbacx.Translated

#print axioms Rbacx.Translated.is_strict_e
#print axioms Rbacx.Translated.ensure_str
#print axioms Rbacx.Translated.as_collection
#print axioms Rbacx.Translated.ensure_numeric_strict
#print axioms Rbacx.Translated.resolve
#print axioms Rbacx.Translated.eval_binops_chain
#print axioms Rbacx.Translated.eval_binops
#print axioms Rbacx.Translated.eval_condition_parse
#print axioms Rbacx.Translated.eval_condition
#print axioms Rbacx.Translated.eval_condition_any_fuel
