import Rbacx.Generated
import Rbacx.Proofs.CondTranslated
/-!
  Per-run obligation: the CONDITION EVALUATOR of core/policy.py as it is written NOW — `eval_condition` and its helpers `_is_strict`,
  `_ensure_str`, `_as_collection`, `_ensure_numeric_strict`, `resolve`, translated statement by statement in EXCEPTION-PASSING style
  into `Rbacx.Generated.Src.*` by harness/pytolean_except.py (plugin `extractors/src_translation_cond.py`; Python operations:
  Model/PyExcept.lean) — computes the hand-written model (`evalCond`, `evalBin`, `resolve`, `numericPair`, `isStrict` of
  Model/Cond.lean), the functions the theorems `Rbacx.C04.*` / `Rbacx.C06.*` are about.  `.error .typeMismatch` = the source raised
  ConditionTypeError, `.error (.raised cls)` = it raised the builtin exception `cls`: the equalities say WHICH exception, too.

  Externals (function parameters of the translation, instantiated here with the model's counterparts): `getattr` = `noAttr` (the
  attribute is absent, DESIGN §2.1 ii), `_parse_dt` = `parseDt` through the oracle, `rel_branch` = the model's `evalRel`.
-/
namespace Rbacx.Translated
open Rbacx Rbacx.Py Rbacx.PyE Rbacx.Generated PyVal

/-! ### stage 1: helpers -/

/-- `_is_strict(env)`: for a non-dict `env` the AttributeError of `env.get` is caught by `except Exception` -/
theorem is_strict_e (env : PyVal) : Src.is_strict_e env = .ok (.bool (isStrict env)) := by
  cases env <;> rfl

/-- `_ensure_str(a, b)` -/
theorem ensure_str (a b : PyVal) : Src.ensure_str a b = strPair a b := by
  cases a <;> cases b <;> rfl

/-- `_as_collection(x)` -/
theorem as_collection (x : PyVal) : Src.as_collection x = asCollection x := by
  cases x <;> rfl

/-- `_ensure_numeric_strict(a, b)`: the model's `numericPair` (bools excluded, an int too large for a double is a type mismatch) -/
theorem ensure_numeric_strict (a b : PyVal) : Src.ensure_numeric_strict a b = (numericPair a b).map encFloats := by
  unfold Src.ensure_numeric_strict
  cases a <;> cases b <;> try rfl
  all_goals
    simp only [numericPair, intToFloat?, floatE, truthy_por, truthy_pand, truthy_isInstance_bool, truthy_isInstance_num, PyVal.isBool,
      PyVal.isIntOrFloat, PyVal.isNumber, Bool.or_self, Bool.and_self, Bool.false_eq_true, if_false, if_true]
    repeat' split
    all_goals first | rfl | simp_all [tryExcept, catches, PyE.bind, PyE.raise, excOf, Except.map, encFloats]

/-- `resolve(token, env)` with the `getattr` fallback answering "absent": never raises, and is the model's `resolve` -/
theorem resolve (o : Oracle) (token env : PyVal) : Src.resolve o noAttr token env = .ok (Rbacx.resolve o token env) := by
  unfold Src.resolve Rbacx.resolve
  cases token with
  | dict kvs =>
    simp only [truthy_isInstance_dict, PyVal.isDict, if_true, containsE, bind_ok, truthy, Bool.true_and]
    cases h : PyVal.hasKey (PyVal.dict kvs) "attr" with
    | false => rfl
    | true =>
      have hk : ∃ v, lookup "attr" kvs = some v := by
        simp only [PyVal.hasKey] at h
        exact Option.isSome_iff_exists.mp h
      obtain ⟨v, hv⟩ := hk
      simp only [if_true, itemE, hv, bind_ok, strO, splitE, iterE, isIterable, Rbacx.Py.iter, PyVal.get, Option.getD_some]
      rw [resolve_loop _ (fun cur seg => by cases cur <;> rfl)]
      rfl
  | _ => rfl

end Rbacx.Translated

#print axioms Rbacx.Translated.is_strict_e
#print axioms Rbacx.Translated.ensure_str
#print axioms Rbacx.Translated.as_collection
#print axioms Rbacx.Translated.ensure_numeric_strict
#print axioms Rbacx.Translated.resolve
