import Rbacx.Generated
import Rbacx.Proofs.CondTranslated
/-!
  Per-run obligation: the CONDITION EVALUATOR of core/policy.py as it is written NOW — `eval_condition` and its helpers `_is_strict`,
  `_ensure_str`, `_as_collection`, `_ensure_numeric_strict`, `resolve`, translated statement by statement in EXCEPTION-PASSING style
  into `Rbacx.Generated.Src.*` by harness/pytolean_except.py (plugin `extractors/src_translation_cond.py`; Python operations:
  Model/PyExcept.lean) — computes the hand-written model (`evalCond`, `evalBin`, `resolve`, `numericPair`, `isStrict` of
  Model/Cond.lean), the functions the theorems `Rbacx.C04.*` / `Rbacx.C06.*` are about.  `.error .typeMismatch` = the source raised
  ConditionTypeError, `.error (.raised cls)` = it raised the builtin exception `cls`: the equalities say WHICH exception, too.

  Externals (function parameters of the translation, instantiated here with the model's counterparts): `getattr` = `noAttr` (the
  attribute is absent, DESIGN §2.1 ii), `_parse_dt` = `parseDt` through the oracle, `rel_branch` = the model's `evalRel`.
-/
namespace Rbacx.Translated
open Rbacx Rbacx.Py Rbacx.PyE Rbacx.Generated PyVal

/-! ### stage 1: helpers -/

/-- `_is_strict(env)`: for a non-dict `env` the AttributeError of `env.get` is caught by `except Exception` -/
theorem is_strict_e (env : PyVal) : Src.is_strict_e env = .ok (.bool (isStrict env)) := by
  cases env <;> rfl

/-- `_ensure_str(a, b)` -/
theorem ensure_str (a b : PyVal) : Src.ensure_str a b = strPair a b := by
  cases a <;> cases b <;> rfl

/-- `_as_collection(x)` -/
theorem as_collection (x : PyVal) : Src.as_collection x = asCollection x := by
  cases x <;> rfl

/-- `_ensure_numeric_strict(a, b)`: the model's `numericPair` (bools excluded, an int too large for a double is a type mismatch) -/
theorem ensure_numeric_strict (a b : PyVal) : Src.ensure_numeric_strict a b = (numericPair a b).map encFloats := by
  unfold Src.ensure_numeric_strict
  cases a <;> cases b <;> try rfl
  all_goals
    simp only [numericPair, intToFloat?, floatE, truthy_por, truthy_pand, truthy_isInstance_bool, truthy_isInstance_num, PyVal.isBool,
      PyVal.isIntOrFloat, PyVal.isNumber, Bool.or_self, Bool.and_self, Bool.false_eq_true, if_false, if_true]
    repeat' split
    all_goals first | rfl | simp_all [tryExcept, catches, PyE.bind, PyE.raise, excOf, Except.map, encFloats]

/-- `resolve(token, env)` with the `getattr` fallback answering "absent": never raises, and is the model's `resolve` -/
theorem resolve (o : Oracle) (token env : PyVal) : Src.resolve o noAttr token env = .ok (Rbacx.resolve o token env) := by
  unfold Src.resolve Rbacx.resolve
  cases token with
  | dict kvs =>
    simp only [truthy_isInstance_dict, PyVal.isDict, if_true, containsE, bind_ok, truthy, Bool.true_and]
    cases h : PyVal.hasKey (PyVal.dict kvs) "attr" with
    | false => rfl
    | true =>
      have hk : ∃ v, lookup "attr" kvs = some v := by
        simp only [PyVal.hasKey] at h
        exact Option.isSome_iff_exists.mp h
      obtain ⟨v, hv⟩ := hk
      simp only [if_true, itemE, hv, bind_ok, strO, splitE, iterE, isIterable, Rbacx.Py.iter, PyVal.get, Option.getD_some]
      rw [resolve_loop _ (fun cur seg => by cases cur <;> rfl)]
      rfl
  | _ => rfl

/-! ### stage 2: the fifteen binary operators (`if '==' in cond:` … `if 'between' in cond:`) -/

theorem eval_binops_chain (cx : CondCtx) (kvs : List (String × PyVal)) :
    Src.eval_binops cx.o noAttr (parseDtExt cx.o) (.dict kvs) cx.env (.bool cx.strict) =
      chainModel cx (.dict kvs) binOpsInOrder := by
  unfold Src.eval_binops
  simp only [binop_head]
  simp only [resolve, bind_ok, ensure_numeric_strict, ensure_str, as_collection]
  unfold binOpsInOrder
  refine opBranch_step cx kvs .eq _ _ _ (fun a b => rfl) ?_
  refine opBranch_step cx kvs .ne _ _ _ (fun a b => rfl) ?_
  refine opBranch_step cx kvs .gt _ _ _ (fun a b => ?_) ?_
  · cases h : numericPair (Rbacx.resolve cx.o a cx.env) (Rbacx.resolve cx.o b cx.env) with
    | error e => simp only [evalOp, h]; rfl
    | ok p => obtain ⟨m, n⟩ := p; simp only [evalOp, h]; rfl
  refine opBranch_step cx kvs .lt _ _ _ (fun a b => ?_) ?_
  · cases h : numericPair (Rbacx.resolve cx.o a cx.env) (Rbacx.resolve cx.o b cx.env) with
    | error e => simp only [evalOp, h]; rfl
    | ok p => obtain ⟨m, n⟩ := p; simp only [evalOp, h]; rfl
  refine opBranch_step cx kvs .ge _ _ _ (fun a b => ?_) ?_
  · cases h : numericPair (Rbacx.resolve cx.o a cx.env) (Rbacx.resolve cx.o b cx.env) with
    | error e => simp only [evalOp, h]; rfl
    | ok p => obtain ⟨m, n⟩ := p; simp only [evalOp, h]; rfl
  refine opBranch_step cx kvs .le _ _ _ (fun a b => ?_) ?_
  · cases h : numericPair (Rbacx.resolve cx.o a cx.env) (Rbacx.resolve cx.o b cx.env) with
    | error e => simp only [evalOp, h]; rfl
    | ok p => obtain ⟨m, n⟩ := p; simp only [evalOp, h]; rfl
  refine opBranch_step cx kvs .contains _ _ _ (fun a b => ?_) ?_
  · generalize Rbacx.resolve cx.o a cx.env = x
    generalize Rbacx.resolve cx.o b cx.env = y
    cases x <;> cases y <;> rfl
  refine opBranch_step cx kvs .isIn _ _ _ (fun a b => ?_) ?_
  · generalize Rbacx.resolve cx.o a cx.env = x
    generalize Rbacx.resolve cx.o b cx.env = y
    cases x <;> cases y <;> first | rfl | skip
    next xs ys =>
      show PyE.bind (anyE ys fun val => containsE (.list xs) val) (fun t => Except.ok (PyE.Flow.ret t)) = _
      rw [containsE_list, anyE_ok]; rfl
  refine opBranch_step cx kvs .hasAll _ _ _ (fun a b => ?_) ?_
  · generalize Rbacx.resolve cx.o a cx.env = x
    generalize Rbacx.resolve cx.o b cx.env = y
    cases x <;> cases y <;> first | rfl | skip
    next xs ys =>
      show PyE.bind (allE ys fun v => containsE (.list xs) v) (fun t => Except.ok (PyE.Flow.ret t)) = _
      rw [containsE_list, allE_ok]; rfl
  refine opBranch_step cx kvs .hasAny _ _ _ (fun a b => ?_) ?_
  · generalize Rbacx.resolve cx.o a cx.env = x
    generalize Rbacx.resolve cx.o b cx.env = y
    cases x <;> cases y <;> first | rfl | skip
    next xs ys =>
      show PyE.bind (anyE ys fun v => containsE (.list xs) v) (fun t => Except.ok (PyE.Flow.ret t)) = _
      rw [containsE_list, anyE_ok]; rfl
  refine opBranch_step cx kvs .startsWith _ _ _ (fun a b => ?_) ?_
  · generalize Rbacx.resolve cx.o a cx.env = x
    generalize Rbacx.resolve cx.o b cx.env = y
    cases x <;> cases y <;> rfl
  refine opBranch_step cx kvs .endsWith _ _ _ (fun a b => ?_) ?_
  · generalize Rbacx.resolve cx.o a cx.env = x
    generalize Rbacx.resolve cx.o b cx.env = y
    cases x <;> cases y <;> rfl
  refine opBranch_step cx kvs .before _ _ _ (fun a b => ?_) ?_
  · simp only [parseDtExt, truthy, evalOp]
    cases parseDt cx.o cx.strict (Rbacx.resolve cx.o a cx.env) <;>
      cases parseDt cx.o cx.strict (Rbacx.resolve cx.o b cx.env) <;> rfl
  refine opBranch_step cx kvs .after _ _ _ (fun a b => ?_) ?_
  · simp only [parseDtExt, truthy, evalOp]
    cases parseDt cx.o cx.strict (Rbacx.resolve cx.o a cx.env) <;>
      cases parseDt cx.o cx.strict (Rbacx.resolve cx.o b cx.env) <;> rfl
  refine opBranch_step cx kvs .between _ _ _ (fun a b => ?_) rfl
  · simp only [parseDtExt, truthy_bool, evalOp]
    generalize Rbacx.resolve cx.o b cx.env = y
    cases parseDt cx.o cx.strict (Rbacx.resolve cx.o a cx.env) with
    | error e => rfl
    | ok d =>
      cases y with
      | list ys =>
        match ys with
        | [] => rfl
        | [_] => rfl
        | _ :: _ :: _ :: _ => rfl
        | [lo, hi] =>
          show (PyE.bind (Except.map (dt true) (parseDt cx.o cx.strict (Rbacx.resolve cx.o lo cx.env))) fun t104 =>
                PyE.bind (Except.map (dt true) (parseDt cx.o cx.strict (Rbacx.resolve cx.o hi cx.env))) fun t107 =>
                PyE.bind (PyE.bind (leE t104 (dt true d)) fun t108 => if t108.truthy then leE (dt true d) t107 else Except.ok t108)
                  fun t => Except.ok (PyE.Flow.ret t)) =
              Except.map retBool (do
                let s ← parseDt cx.o cx.strict (Rbacx.resolve cx.o lo cx.env)
                let e ← parseDt cx.o cx.strict (Rbacx.resolve cx.o hi cx.env)
                pure (decide (s ≤ d) && decide (d ≤ e)))
          cases parseDt cx.o cx.strict (Rbacx.resolve cx.o lo cx.env) with
          | error e => rfl
          | ok s =>
            cases parseDt cx.o cx.strict (Rbacx.resolve cx.o hi cx.env) with
            | error e => rfl
            | ok e =>
              show (PyE.bind (PyE.bind (leE (dt true s) (dt true d)) fun t108 => if t108.truthy then leE (dt true d) (dt true e) else Except.ok t108)
                  fun t => Except.ok (PyE.Flow.ret t)) = Except.ok (retBool (decide (s ≤ d) && decide (d ≤ e)))
              simp only [leE, BEq.rfl, if_true, bind_ok, truthy_bool]
              cases decide (s ≤ d) <;> rfl
      | _ => rfl

/-- `Src.eval_binops` on a dict `cond`: the first operator key present (in the order of the `if` chain) is evaluated by the model's
    `evalBin` — same value, same exception —, and without any operator key control leaves the range -/
theorem eval_binops (cx : CondCtx) (kvs : List (String × PyVal)) :
    Src.eval_binops cx.o noAttr (parseDtExt cx.o) (.dict kvs) cx.env (.bool cx.strict) =
      match binOpsInOrder.find? (fun op => PyVal.hasKey (.dict kvs) op.key) with
      | some op => (evalBin cx op ((PyVal.dict kvs).get op.key)).map retBool
      | Option.none => .ok .next := by
  exact (eval_binops_chain cx kvs).trans (chainModel_eq cx _ _)

end Rbacx.Translated

#print axioms Rbacx.Translated.is_strict_e
#print axioms Rbacx.Translated.ensure_str
#print axioms Rbacx.Translated.as_collection
#print axioms Rbacx.Translated.ensure_numeric_strict
#print axioms Rbacx.Translated.resolve
#print axioms Rbacx.Translated.eval_binops_chain
#print axioms Rbacx.Translated.eval_binops
