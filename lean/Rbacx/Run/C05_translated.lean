import Rbacx.Generated
import Rbacx.Proofs.TargetTranslated
/-!
  Per-run obligation: the TARGET MATCHER of core/policy.py as it is written NOW — `_is_strict` and `match_resource`, translated
  statement by statement into `Rbacx.Generated.Src.is_strict` / `Src.match_resource` by harness/pytolean.py (plugin
  `extractors/src_translation_target.py`) — computes the hand-written model `Rbacx.matchResource` (Model/Target.lean), the function
  the theorems `Rbacx.C05.*` (and, through rule applicability, C02/C03) are about.  For EVERY `rdef`, `resource`, `strict` and every
  oracle `o` (the same `Oracle` the model takes: CPython's `str()` of floats, containers and datetimes); no hypothesis.

  What the translation speaks about: `Py.get` answers `None` on a non-dict, where CPython's `resource.get(…)` raises AttributeError,
  so for a `resource` that is not a dict the equalities below hold but say nothing about CPython (the model's domain, DESIGN §2.1:
  the engine passes `env.get("resource") or {}` built from a `Resource`).  For a dict `resource` of JSON-shaped values no statement of
  `match_resource` can raise: every set is built from `str(…)` results or behind `all(isinstance(x, str) for x in allowed)`.
  The proofs go block by block (library: Proofs/TargetTranslated.lean); this file only fits the blocks to the generated text.
-/
namespace Rbacx.Translated
open Rbacx Rbacx.Py Rbacx.Generated PyVal

/-- `_is_strict(env)` (the try body; for a non-dict `env` CPython's handler returns `False`, which is also what `Py.get` gives) -/
theorem is_strict (env : PyVal) : Src.is_strict env = .bool (isStrict env) := rfl

/-- `match_resource(rdef, resource, strict=strict)` for an arbitrary value of the keyword argument: `None` = read the legacy flag
    `resource["__strict_types__"]`, anything else = its truth value (`strict=False` switches the legacy flag off) -/
theorem match_resource_strict (o : Oracle) (rdef resource strict : PyVal) :
    Src.match_resource o rdef resource strict = .bool (matchResourceWith o (strictArg strict resource) rdef resource) := by
  unfold Src.match_resource Src.is_strict
  simp only [type_block, id_block, attrs_block]
  simp only [type_dispatch, type_outer]
  exact match_assemble o rdef resource strict

/-- the call `evaluate` and the compiled matcher make (`strict=True if _is_strict(env) else None`) is the model's `matchResource` -/
theorem match_resource (o : Oracle) (strictEnv : Bool) (rdef resource : PyVal) :
    Src.match_resource o rdef resource (strictParam strictEnv) = .bool (matchResource o strictEnv rdef resource) := by
  rw [match_resource_strict, strictArg_param, matchResource_eq_with]

/-- the direct call without the keyword (`strict=None`): the legacy flag alone decides -/
theorem match_resource_legacy (o : Oracle) (rdef resource : PyVal) :
    Src.match_resource o rdef resource PyVal.none = .bool (matchResource o false rdef resource) :=
  match_resource o false rdef resource

end Rbacx.Translated

#print axioms Rbacx.Translated.is_strict
#print axioms Rbacx.Translated.match_resource_strict
#print axioms Rbacx.Translated.match_resource
#print axioms Rbacx.Translated.match_resource_legacy
