import Rbacx.Generated
import Rbacx.Proofs.Total
import Rbacx.Proofs.JsonSchema
import Rbacx.Properties.C06
/-!
  Per-run obligation: the BUNDLED JSON SCHEMA src/rbacx/dsl/policy.schema.json as its text is NOW — translated keyword by keyword into
  `Rbacx.Generated.Src.schema_def` / `Src.schema_root` by harness/pytolean_schema.py (plugin `extractors/src_translation_schema.py`;
  keyword meanings in Model/JsonSchema.lean) — GUARANTEES the well-formedness predicate `docWF` (Proofs/Total.lean) that the totality
  theorem `Rbacx.C06.c06_total` assumes.

  Proved here for EVERY fuel of the schema (`fs`), EVERY fuel of the condition parser (`fp`) and EVERY value `v` — induction on the
  parser's fuel and case analysis, never enumeration:

  * `schema_condition_wf`: a value the definition `Condition` accepts parses (`parseCond`) to a well-formed condition: under `rel` a
    string or an object whose `ctx`, when present, is an object; under each of the 15 binary operators a two-element list (`type: array`,
    `minItems: 2`, `maxItems: 2`); under `and` / `or` a list of accepted conditions, under `not` an accepted condition;
  * `schema_rule_wf` / `schema_policy_wf`: `Rule` ⇒ `ruleWF`, `SinglePolicy` ⇒ `policyWF` (`effect`, `algorithm`: strings when present);
  * `schema_doc_wf`: the root schema ⇒ `docWF` (the children of a set are `SinglePolicy`-valid; `additionalProperties: false` there
    means they have no `policies` key, so `toTree` makes them leaves);
  * `schema_valid_total`: `Rbacx.C06.c06_total` with the hypothesis "the bundled schema accepts the document" in place of `docWF`.

  What is trusted: the translator and the keyword meanings — both compared with the real `jsonschema` validator built from the same file
  and with `rbacx.dsl.validate.validate_policy` on every run (`translated_schema_vs_jsonschema` in harness/props/c06.py, evaluator
  Run/SrcEvalSchema.lean).
-/
namespace Rbacx.Translated
open Rbacx Rbacx.Generated PyVal

/-- find the entry of a key in a literal `properties` list (assigns the sub-schema by unification) -/
macro "mem_key" : tactic => `(tactic| repeat (first | exact List.Mem.head _ | apply List.Mem.tail))

theorem condsWF_map (f : PyVal → Cond) (xs : List PyVal) (h : ∀ x ∈ xs, condWF (f x) = true) : condsWF (xs.map f) = true := by
  induction xs with
  | nil => simp [condsWF]
  | cons x rest ih =>
    simp only [List.map_cons, condsWF, Bool.and_eq_true]
    exact ⟨h x (by simp), ih (fun y hy => h y (by simp [hy]))⟩

/-- `type: object` under `ctx` of an object-valued `rel` -/
theorem relWF_of {r : PyVal} (h : ∀ kvs, r = .dict kvs → ∀ x, lookup "ctx" kvs = some x → x.isDict = true) : relWF r = true := by
  cases r with
  | dict kvs =>
    simp only [relWF, PyVal.get]
    cases hl : lookup "ctx" kvs with
    | none => simp [truthy]
    | some x => simp [h kvs rfl x hl]
  | _ => rfl

/-- the definition `Condition` accepts only values that parse to well-formed conditions -/
theorem schema_condition_wf : ∀ (fp fs : Nat) (v : PyVal), Src.schema_def fs .Condition v = true → condWF (parseCond fp v) = true := by
  intro fp
  induction fp with
  | zero => intro fs v _; simp [parseCond, condWF]
  | succ fp ih =>
    intro fs v h
    cases fs with
    | zero => simp [Src.schema_def] at h
    | succ fs =>
      cases v with
      | dict kvs =>
        simp only [Src.schema_def] at h
        -- exactly one of: a boolean, an object with one known key; the first does not apply to an object
        have h : _ = true := (JS.oneOf_two h).resolve_left (by simp [JS.typeIs])
        simp only [Bool.and_eq_true] at h
        have hp := h.2
        simp only [parseCond]
        split
        · -- rel
          rename_i hk
          have h2 := JS.props_get hp (k := "rel") (by mem_key) hk
          simp only [condWF]
          apply relWF_of
          intro kvs2 e x hx
          rw [e] at h2
          -- exactly one of the two spellings; the string one does not apply to an object (whatever the order of the branches)
          rcases JS.oneOf_two h2 with h2 | h2 <;>
            first
            | (exfalso; simp [JS.typeIs] at h2; done)
            | (simp only [Bool.and_eq_true] at h2
               exact JS.typeIs_object_isDict (JS.props_lookup h2.2 (k := "ctx") (by mem_key) hx))
        · split
          · -- one of the 15 binary operators: a two-element list
            rename_i op hfind
            have hk := List.find?_some hfind
            cases op <;> simp only [BinOp.key] at hk ⊢ <;>
              (have h2 := JS.props_get hp (by mem_key) hk
               simp only [Bool.and_eq_true] at h2
               obtain ⟨a, b, e⟩ : ∃ a b, PyVal.get (.dict kvs) _ = .list [a, b] := by
                 first
                   | exact JS.array_two h2.1.1 h2.1.2 h2.2
                   | exact JS.array_two h2.1.1.1.1 h2.1.1.1.2 h2.1.1.2
               rw [e]; rfl)
          · split
            · rename_i hk
              have h2 := JS.props_get hp (k := "and") (by mem_key) hk
              simp only [Bool.and_eq_true] at h2
              obtain ⟨xs, e⟩ := JS.typeIs_array h2.1
              rw [e] at h2 ⊢
              simp only [parseSubsWith, condWF]
              exact condsWF_map _ _ (fun x hx => ih fs x (JS.items_all h2.2 x hx))
            · split
              · rename_i hk
                have h2 := JS.props_get hp (k := "or") (by mem_key) hk
                simp only [Bool.and_eq_true] at h2
                obtain ⟨xs, e⟩ := JS.typeIs_array h2.1
                rw [e] at h2 ⊢
                simp only [parseSubsWith, condWF]
                exact condsWF_map _ _ (fun x hx => ih fs x (JS.items_all h2.2 x hx))
              · split
                · rename_i hk
                  have h2 := JS.props_get hp (k := "not") (by mem_key) hk
                  simp only [condWF]
                  exact ih fs _ h2
                · simp [condWF]
      | _ => simp [parseCond, condWF]

theorem get_absent {v : PyVal} {k : String} (h : v.hasKey k = false) : v.get k = .none := by
  cases v <;> simp [PyVal.get]
  rename_i kvs
  simp only [hasKey] at h
  cases hl : lookup k kvs <;> simp [hl] at h ⊢

/-- a field that is a string when present: `(v or dflt).lower()` works -/
theorem strField_of {v : PyVal} {k : String} (h : v.hasKey k = true → JS.typeIs "string" (v.get k) = true) : strField (v.get k) = true := by
  cases hk : v.hasKey k with
  | false => rw [get_absent hk]; rfl
  | true => simp [strField, JS.typeIs_string_isStr (h hk)]

/-- `rules`, when present, is a list of values the definition `Rule` accepts ⇒ every rule the evaluator iterates over is well-formed -/
theorem rules_all_of {v : PyVal} {ruleOk : PyVal → Bool} (hr : ∀ x, ruleOk x = true → ruleWF x = true)
    (h : v.hasKey "rules" = true → JS.typeIs "array" (v.get "rules") = true ∧ JS.items (v.get "rules") 0 ruleOk = true) :
    (rulesOf v).all ruleWF = true := by
  cases hk : v.hasKey "rules" with
  | false => simp [rulesOf, get_absent hk, por, truthy]
  | true =>
    obtain ⟨ht, hi⟩ := h hk
    obtain ⟨xs, e⟩ := JS.typeIs_array ht
    rw [e] at hi
    have hall := JS.items_all hi
    simp only [rulesOf, e, por]
    cases xs with
    | nil => simp [truthy]
    | cons x rest => simp only [truthy, List.isEmpty_cons, Bool.not_false, ↓reduceIte, List.all_eq_true]; exact fun y hy => hr y (hall y hy)

/-- the definition `Rule` accepts only well-formed rules -/
theorem schema_rule_wf (fs : Nat) (v : PyVal) (h : Src.schema_def fs .Rule v = true) : ruleWF v = true := by
  cases fs with
  | zero => simp [Src.schema_def] at h
  | succ fs =>
    simp only [Src.schema_def, Bool.and_eq_true] at h
    have hp := h.2
    simp only [ruleWF, Bool.and_eq_true]
    refine ⟨strField_of (fun hk => ?_), ?_⟩
    · have h2 := JS.props_get hp (k := "effect") (by mem_key) hk
      simp only [Bool.and_eq_true] at h2
      exact h2.1
    · cases hk : v.hasKey "condition" with
      | false => rw [get_absent hk]; rfl
      | true => exact schema_condition_wf _ fs _ (JS.props_get hp (k := "condition") (by mem_key) hk)

/-- the definition `SinglePolicy` accepts only well-formed policies … -/
theorem schema_policy_wf (fs : Nat) (v : PyVal) (h : Src.schema_def fs .SinglePolicy v = true) : policyWF v = true := by
  cases fs with
  | zero => simp [Src.schema_def] at h
  | succ fs =>
    simp only [Src.schema_def, Bool.and_eq_true] at h
    have hp := h.2
    simp only [policyWF, Bool.and_eq_true]
    refine ⟨strField_of (fun hk => ?_), rules_all_of (schema_rule_wf fs) (fun hk => ?_)⟩
    · have h2 := JS.props_get hp (k := "algorithm") (by mem_key) hk
      simp only [Bool.and_eq_true] at h2
      exact h2.1
    · have h2 := JS.props_get hp (k := "rules") (by mem_key) hk
      simp only [Bool.and_eq_true] at h2
      exact h2

/-- … that have no `policies` key (`additionalProperties: false`): `toTree` makes them leaves -/
theorem schema_policy_leaf (fs : Nat) (v : PyVal) (h : Src.schema_def fs .SinglePolicy v = true) (fuel : Nat) : toTree fuel v = .leaf v := by
  cases fs with
  | zero => simp [Src.schema_def] at h
  | succ fs =>
    simp only [Src.schema_def, Bool.and_eq_true] at h
    have hno : v.hasKey "policies" = false := JS.noAdditional_not h.1.2 (by decide)
    cases fuel <;> simp [toTree, hno]

theorem treesWF_map (f : PyVal → PTree) (xs : List PyVal) (h : ∀ x ∈ xs, treeWF (f x) = true) : treesWF (xs.map f) = true := by
  induction xs with
  | nil => simp [treesWF]
  | cons x rest ih =>
    simp only [List.map_cons, treesWF, Bool.and_eq_true]
    exact ⟨h x (by simp), ih (fun y hy => h y (by simp [hy]))⟩

/-- THE BUNDLED SCHEMA GUARANTEES `docWF`: every value the root schema accepts (whatever the fuel) satisfies the hypothesis of the
    totality theorem -/
theorem schema_doc_wf (fs : Nat) (v : PyVal) (h : Src.schema_root fs v = true) : docWF v = true := by
  simp only [Src.schema_root, Bool.and_eq_true] at h
  have hp := h.2
  have halg : strField (v.get "algorithm") = true := strField_of (fun hk => by
    have h2 := JS.props_get hp (k := "algorithm") (by mem_key) hk
    simp only [Bool.and_eq_true] at h2
    exact h2.1)
  have hrules : (rulesOf v).all ruleWF = true := rules_all_of (schema_rule_wf fs) (fun hk => by
    have h2 := JS.props_get hp (k := "rules") (by mem_key) hk
    simp only [Bool.and_eq_true] at h2
    exact h2)
  simp only [docWF, Bool.and_eq_true]
  refine ⟨⟨?_, halg⟩, hrules⟩
  simp only [treeOf, toTree]
  split
  · rename_i hk
    have h2 := JS.props_get hp (k := "policies") (by mem_key) hk
    simp only [Bool.and_eq_true] at h2
    obtain ⟨xs, e⟩ := JS.typeIs_array h2.1
    rw [e] at h2
    have hall := JS.items_all h2.2
    simp only [e, por]
    split
    · rename_i cs hcs
      split at hcs
      · injection hcs with hcs; subst hcs
        simp only [treeWF, Bool.and_eq_true]
        refine ⟨halg, treesWF_map _ _ (fun x hx => ?_)⟩
        rw [schema_policy_leaf fs x (hall x hx)]
        exact schema_policy_wf fs x (hall x hx)
      · injection hcs with hcs; subst hcs
        simp [treeWF, treesWF, halg]
    · simp [treeWF, treesWF, halg]
  · simp only [treeWF, policyWF, Bool.and_eq_true]; exact ⟨halg, hrules⟩

/-- C06 for SCHEMA-VALID documents: evaluation of a document the bundled schema accepts terminates without raising and returns a
    well-formed decision (`Rbacx.C06.c06_total` with "the schema accepts" in place of `docWF`) -/
theorem schema_valid_total (fs : Nat) (o : Oracle) (cfg : GuardCfg) (policy : PyVal) (req : Request)
    (hvalid : Src.schema_root fs policy = true) (hctx : C06.rebacCtxIsObject cfg req) :
    ∃ d evs, guardEval o cfg policy req = .ok (d, evs) ∧
      (d.effect = "permit" ∨ d.effect = "deny") ∧ (d.allowed = true ↔ d.effect = "permit") ∧
      d.reason ∈ documentedReasons :=
  C06.c06_total o cfg policy req (schema_doc_wf fs policy hvalid) hctx

/-- non-vacuity: the translated schema accepts a set with a conditioned rule (and a `rel` with an object `ctx`) … -/
example : Src.schema_root 8 (.dict [("algorithm", .str "deny-overrides"), ("policies", .list [.dict [("rules", .list [
    .dict [("id", .str "r"), ("effect", .str "permit"), ("actions", .list [.str "read"]), ("resource", .dict [("type", .str "doc")]),
      ("condition", .dict [("and", .list [.dict [("<", .list [.dict [("attr", .str "context.n")], .int 5])],
        .dict [("rel", .dict [("relation", .str "viewer"), ("ctx", .dict [])])]])])]])]])]) = true := by decide

/-- … and rejects a three-operand comparison, a non-string effect, a nested set and a non-object `rel.ctx` -/
example : Src.schema_def 8 .Condition (.dict [("==", .list [.int 1, .int 2, .int 3])]) = false := by decide
example : Src.schema_def 8 .Rule (.dict [("id", .str "r"), ("effect", .int 1), ("actions", .list [.str "read"]),
    ("resource", .dict [("type", .str "doc")])]) = false := by decide
example : Src.schema_def 8 .SinglePolicy (.dict [("policies", .list []), ("rules", .list [])]) = false := by decide
example : Src.schema_def 8 .Condition (.dict [("rel", .dict [("relation", .str "viewer"), ("ctx", .list [])])]) = false := by decide

end Rbacx.Translated

#print axioms Rbacx.Translated.schema_condition_wf
#print axioms Rbacx.Translated.schema_rule_wf
#print axioms Rbacx.Translated.schema_policy_wf
#print axioms Rbacx.Translated.schema_policy_leaf
#print axioms Rbacx.Translated.schema_doc_wf
#print axioms Rbacx.Translated.schema_valid_total
