import Rbacx.Generated
import Rbacx.Proofs.ObligationsTranslated
/-!
  Per-run obligation (C07): the OBLIGATION CHECKER `BasicObligationChecker.check` of core/obligations.py as it is written NOW.
  harness/pytolean.py (plugin `extractors/src_translation_obligations.py`) translates three fragments of the current source text
  statement by statement into `Rbacx.Generated.Src.*`:

  * `check_prologue` — the statements before `for ob in obligations:` except the last one, `ctx = getattr(context, "attrs", context) or {}`
    (a `getattr` on a Context object: hand-modelled; `ctx` is an input of the loop body);
  * `check_step`     — the WHOLE body of the loop: one obligation entry `ob` against `current_effect` and `ctx`; `_finite_number` is not
    translated but a function parameter (Python floats are an oracle here);
  * `check_final`    — the statement after the loop.

  Proved here: `check_step` with the model's `finiteNumber` in the place of `_finite_number` computes the model's `obligationUnmet`
  (the function the rows of `Rbacx.C07.*` are about) for EVERY `ob`, `ctx`, oracle and every current effect that is a string — no
  other hypothesis: `ctx` and `ob` need not be dicts (`Py.get` answers `None` on a non-dict where CPython raises AttributeError, so for
  a `ctx` that is not a dict the equality holds but says nothing about CPython; an `ob` that is neither `None` nor a dict is skipped by
  the source itself, `attrs` is normalised to a dict by the source itself); `check_prologue` and `check_final` for a raw decision whose
  `decision` is a string (what `policy.evaluate` / `policyset.decide` return); and `check_assembled`: prologue, the loop over the
  fragments (`Py.forFlow`: the `for` statement itself, hand-modelled) and the final statement together are `checkObligations`.
  The proofs fit the block lemmas of Proofs/ObligationsTranslated.lean to the generated text.
-/
namespace Rbacx.Translated
open Rbacx Rbacx.Py Rbacx.Generated PyVal

/-- the `if`/`elif` chain on `typ` (goal: chain = `encUnmet (unmetTyped o ctx attrs typ)`), by the kind of `typ`: one of the eight known
    strings — then every test of the chain is decided and the surviving branch is the corresponding `branch_*` lemma, whatever the
    order of the `elif`s — or none of them: every test fails -/
macro "typed_chain " typ:ident : tactic => `(tactic| (
    rcases typ_cases $typ with ⟨s, hs, ht⟩ | h
    · simp only [knownTypes, List.mem_cons, List.not_mem_nil, or_false] at hs
      subst ht
      rcases hs with e | e | e | e | e | e | e | e
      all_goals subst e
      all_goals simp only [eq_lit, String.reduceBEq, Bool.false_eq_true, if_false, if_true]
      · exact branch_mfa _ _ _
      · exact branch_level _ _ _
      · exact branch_http _ _ _
      · exact branch_consent _ _ _
      · exact branch_terms _ _ _
      · exact branch_captcha _ _ _
      · exact branch_reauth _ _ _
      · exact branch_age _ _ _
    · rw [unmetTyped_other _ _ _ _ h]
      have hk : ∀ s, s ∈ knownTypes → ¬ (Py.eq $typ (.str s)).truthy = true := fun s hs => by rw [h s hs]; exact Bool.false_ne_true
      simp only [knownTypes, List.mem_cons, List.not_mem_nil, or_false, forall_eq_or_imp, forall_eq] at hk
      obtain ⟨k1, k2, k3, k4, k5, k6, k7, k8⟩ := hk
      simp only [k1, k2, k3, k4, k5, k6, k7, k8, Bool.false_eq_true, if_false, encUnmet]))

/-- C07-A: one iteration of the loop: the verdict on one obligation entry.  `encFinite o` = the model's `finiteNumber o` as a Python-level
    function (a float or `None`) in the place of `_finite_number`; `.str effect` = the current effect; `encUnmet (some ch)` = `return
    False, ch`, `encUnmet none` = the iteration ends normally. -/
theorem check_step (o : Oracle) (ob ctx : PyVal) (effect : String) :
    Src.check_step o (encFinite o) ob (.str effect) ctx = encUnmet (obligationUnmet o effect ctx ob) := by
  unfold Src.check_step
  rw [obligationUnmet_eq]
  simp only [get_or_empty ob]
  simp only [malformed_test]
  simp only [on_test]
  -- the two guards: a malformed entry, an obligation aimed at the other effect
  by_cases h1 : (!(ob.isNone || ob.isDict)) = true
  · rw [if_pos h1, if_pos h1]; rfl
  rw [if_neg h1, if_neg h1]
  by_cases h2 : (!(((ob.get "on").por (str "permit")).pyEq (str effect) && (effect == "permit" || effect == "deny"))) = true
  · rw [if_pos h2, if_pos h2]; rfl
  rw [if_neg h2, if_neg h2]
  generalize ob.get "type" = typ
  -- `attrs` normalised: the rest of the body (the translator emits it once per branch of `if not isinstance(attrs, dict)`)
  by_cases hA : (pnot (isInstance ((ob.get "attrs").por (dict [])) "dict")).truthy = true
  · rw [if_pos hA, normAttrs_of_not_dict _ hA]
    generalize PyVal.dict [] = attrs
    typed_chain typ
  · rw [if_neg hA, normAttrs_of_dict _ hA]
    generalize (ob.get "attrs").por (dict []) = attrs
    typed_chain typ

/-- C07-C: the statements before the loop, for a raw decision whose legacy key `decision` is a string: without obligations the
    fail-closed early return, else the loop's inputs `obligations`, `current_effect` ∈ {"permit", "deny"} and `baseline_ok` -/
theorem check_prologue (d : PyVal) (label : String) (hl : d.get "decision" = .str label) :
    Src.check_prologue d = prologueModel label (por (d.get "obligations") (.list [])) := by
  unfold Src.check_prologue prologueModel
  simp only [Py.get, hl]
  generalize por (d.get "obligations") (.list []) = obs
  have e1 : (pnot obs).truthy = !obs.truthy := rfl
  have e2 : (isInstance (.str label) "str").truthy = true := rfl
  have e3 : (Py.eq (.str label) (.str "permit")).truthy = (label == "permit") := eq_lit _ _
  have e4 : Py.eq (.str label) (.str "permit") = .bool (label == "permit") := by simp only [Py.eq, pyEq]
  rw [e1, e2, e3, e4]
  cases obs.truthy
  · rfl
  · simp only [Bool.not_true, Bool.false_eq_true, if_false, if_true, effectOf]
    by_cases h : (label == "permit") = true
    · rw [if_pos h, if_pos h]; rfl
    · rw [if_neg h, if_neg h]; rfl

/-- the statement after the loop -/
theorem check_final (ok : Bool) : Src.check_final (.bool ok) = encVerdict (ok, Option.none) := rfl

/-- `check` put together from its translated fragments; hand-written here: the `for` statement itself (`Py.forFlow`: iterate, stop at
    the first `return`) and `ctx` as an argument (in the source: `getattr(context, "attrs", context) or {}`) -/
def checkAssembled (o : Oracle) (finite_number : PyVal → PyVal) (decision ctx : PyVal) : PyVal :=
  match Src.check_prologue decision with
  | .ret v => v
  | .next [obligations, current_effect, baseline_ok] =>
    forFlow (fun ob => Src.check_step o finite_number ob current_effect ctx) (Src.check_final baseline_ok) (Py.iter obligations)
  | .next _ => PyVal.none

/-- C07: the assembled fragments are the model's `checkObligations`, for a raw decision whose `decision` is the string `label` and whose
    `obligations` are a list, or anything falsy (`None`, absent: then `obls = []`) -/
theorem check_assembled (o : Oracle) (d ctx : PyVal) (label : String) (obls : List PyVal)
    (hl : d.get "decision" = .str label) (ho : por (d.get "obligations") (.list []) = .list obls) :
    checkAssembled o (encFinite o) d ctx = encVerdict (checkObligations o label obls ctx) := by
  unfold checkAssembled
  rw [check_prologue d label hl, ho]
  unfold prologueModel checkObligations
  cases obls with
  | nil =>
    simp only [truthy_list, List.isEmpty_nil, Bool.not_true, Bool.false_eq_true, if_false, List.findSome?_nil, encVerdict]
    show PyVal.list [.bool (label == "permit"), PyVal.none] = .list [.bool (effectOf label == "permit"), PyVal.none]
    rw [effectOf_permit]
  | cons ob rest =>
    simp only [truthy_list, List.isEmpty_cons, Bool.not_false, if_true, Py.iter]
    rw [forFlow_encUnmet (obligationUnmet o (effectOf label) ctx) _ _ (fun ob => check_step o ob ctx (effectOf label))]
    show _ = encVerdict (match (ob :: rest).findSome? (obligationUnmet o (effectOf label) ctx) with
      | some ch => (false, some ch)
      | Option.none => (effectOf label == "permit", Option.none))
    cases (ob :: rest).findSome? (obligationUnmet o (effectOf label) ctx) <;> rfl

end Rbacx.Translated

#print axioms Rbacx.Translated.check_step
#print axioms Rbacx.Translated.check_prologue
#print axioms Rbacx.Translated.check_final
#print axioms Rbacx.Translated.check_assembled
