import Rbacx.Generated
import Rbacx.Proofs.ObligationsTranslated
namespace Rbacx.Translated
open Rbacx Rbacx.Py Rbacx.Generated PyVal

/-- the `if`/`elif` chain on `typ` (goal: chain = `encUnmet (unmetTyped o ctx attrs typ)`), by the kind of `typ`: one of the eight known
    strings — then every test of the chain is decided and the surviving branch is the corresponding `branch_*` lemma, whatever the
    order of the `elif`s — or none of them: every test fails -/
macro "typed_chain " typ:ident : tactic => `(tactic| (
    rcases typ_cases $typ with ⟨s, hs, ht⟩ | h
    · simp only [knownTypes, List.mem_cons, List.not_mem_nil, or_false] at hs
      subst ht
      rcases hs with e | e | e | e | e | e | e | e
      all_goals subst e
      all_goals simp only [eq_lit, String.reduceBEq, Bool.false_eq_true, if_false, if_true]
      · exact branch_mfa _ _ _
      · exact branch_level _ _ _
      · exact branch_http _ _ _
      · exact branch_consent _ _ _
      · exact branch_terms _ _ _
      · exact branch_captcha _ _ _
      · exact branch_reauth _ _ _
      · exact branch_age _ _ _
    · rw [unmetTyped_other _ _ _ _ h]
      have hk : ∀ s, s ∈ knownTypes → ¬ (Py.eq $typ (.str s)).truthy = true := fun s hs => by rw [h s hs]; exact Bool.false_ne_true
      simp only [knownTypes, List.mem_cons, List.not_mem_nil, or_false, forall_eq_or_imp, forall_eq] at hk
      obtain ⟨k1, k2, k3, k4, k5, k6, k7, k8⟩ := hk
      simp only [k1, k2, k3, k4, k5, k6, k7, k8, Bool.false_eq_true, if_false, encUnmet]))

theorem check_step (o : Oracle) (ob ctx : PyVal) (effect : String) :
    Src.check_step o (encFinite o) ob (.str effect) ctx = encUnmet (obligationUnmet o effect ctx ob) := by
  unfold Src.check_step
  rw [obligationUnmet_eq]
  simp only [get_or_empty ob]
  simp only [malformed_test]
  simp only [on_test]
  -- the two guards: a malformed entry, an obligation aimed at the other effect
  by_cases h1 : (!(ob.isNone || ob.isDict)) = true
  · rw [if_pos h1, if_pos h1]; rfl
  rw [if_neg h1, if_neg h1]
  by_cases h2 : (!(((ob.get "on").por (str "permit")).pyEq (str effect) && (effect == "permit" || effect == "deny"))) = true
  · rw [if_pos h2, if_pos h2]; rfl
  rw [if_neg h2, if_neg h2]
  generalize ob.get "type" = typ
  -- `attrs` normalised: the rest of the body (the translator emits it once per branch of `if not isinstance(attrs, dict)`)
  by_cases hA : (pnot (isInstance ((ob.get "attrs").por (dict [])) "dict")).truthy = true
  · rw [if_pos hA, normAttrs_of_not_dict _ hA]
    generalize PyVal.dict [] = attrs
    typed_chain typ
  · rw [if_neg hA, normAttrs_of_dict _ hA]
    generalize (ob.get "attrs").por (dict []) = attrs
    typed_chain typ

end Rbacx.Translated
#print axioms Rbacx.Translated.check_step
