import Rbacx.Generated
import Rbacx.Proofs.CacheProtoTranslated
import Rbacx.Properties.C08Key
/-!
  Per-run obligation (C08, C09): the DECISION-CACHE PROTOCOL of `Guard` (core/engine.py) as it is written NOW.
  harness/pytolean_proto.py (plugin `extractors/src_translation_cacheproto.py`) translates, statement by statement, from the current
  source text into `Rbacx.Generated.Src.*`:

  * `guard_normalize_env` / `guard_cache_key` — `Guard._normalize_env_for_cache`, `Guard._cache_key` whole; the `json.dumps` call —
    accepted only with exactly `sort_keys=True, separators=(",", ":"), default=str, ensure_ascii=False` — is `PyP.dumpsCanon`: the
    model's `canonJson` on float-free values, an oracle parameter elsewhere;
  * `engine_cache_proto` — the statements of `Guard._evaluate_core_async` between the env range and the gate range of C01_translated
    (`raw = None` … `cache.set(key, raw, ttl=self.cache_ttl)`); externals (outcome parameters: `some v` returned / `none` raised):
    `cache.get`, `cache.set`, the awaited `self._decide_async`; `self._policy_gen` read at the start and at store time: two inputs;
    the lock blocks transparent, the context-variable set/reset left out; result = (raw | escaped exception, the cache calls in order);
  * `guard_set_policy` — `Guard.set_policy` with `_recompute_etag` and `clear_cache` translated in place, a state transformer over
    (`_policy_gen`, `policy`, `policy_etag`, `_compiled`) whose trace records lock, shared-attribute and cache accesses; externals:
    the sorted JSON text of the policy, sha3-256, the compiler (and whether it is importable), `cache.clear`.

  Proved here, about the TRANSLATED SOURCE, for ALL values of every input and every outcome of every external unless a hypothesis
  says otherwise:
  (b) `guard_cache_key_eq`: on a float-free env the key is `etag ++ ":" ++ canonJson env`, `None` for the empty etag / `None`
      (`guard_cache_key_none`); hence `guard_cache_key_model` (it IS `Rbacx.cacheKeyOf`) and `guard_cache_key_injective` (equal keys ⇒ equal
      etags and envs equal up to dict-entry order: `c08_key_injective` about the source);
  (a) `engine_cache_proto_eq`: the range IS `protoStep` (Proofs/CacheProtoTranslated.lean) on the translated key, the outcome of
      `cache.get` on it, the outcome of the decision and "generation at store time == generation at start" — no hypothesis at all;
      corollaries: a hit returns the cached value and stores nothing, a miss (or a raising `cache.get`) returns the decision and stores
      it under the key iff the generation is unchanged, a raising `cache.set` is swallowed (its outcome does not occur in the result),
      no cache / no key ⇒ the plain decision and no cache call; `engine_cache_proto_gen_moved`: NOTHING IS STORED IF THE GENERATION MOVED
      (C09's `WellShaped` reading); `engine_cache_proto_stored`: whatever is stored is this evaluation's decision under this
      evaluation's key; `engine_cache_proto_stepCached`: under the sequential reading the range performs `CacheHist.stepCached`'s
      evaluation — the decision `c08_transparent` is about and exactly the cache operations it appends;
  (c) `guard_set_policy_eq`: final state = (gen + 1, the NEW policy, `newEtag` of the NEW policy, `newCompiled` of the NEW policy) and
      trace = `updTrace` — acquire · bump · publish policy, etag, compiled function · clear · release — for every outcome of every
      external; `guard_set_policy_program`: in the tracer's vocabulary that is `Conc.expectedSetPolicy`, the updater program C09's
      interleaving model runs; `guard_set_policy_locked`: every access lies inside the one lock block; `guard_set_policy_clears`.
-/
namespace Rbacx.Translated
open Rbacx Rbacx.Py Rbacx.PyP Rbacx.Generated PyVal

/-! ### (b) the key -/

/-- `_normalize_env_for_cache` on a float-free env: the model's canonical text (no oracle is consulted) -/
theorem guard_normalize_env_eq (o : Oracle) (dumps : PyVal → Option PyVal) (repr : PyVal → PyVal) (env : PyVal)
    (h : floatFree env = true) : Src.guard_normalize_env o dumps repr env = .str (String.ofList (canonChars env)) := by
  unfold Src.guard_normalize_env
  rw [dumpsCanon_floatFree dumps env h]

/-- … elsewhere: what CPython's `json.dumps` returned, `repr(env)` when it raised -/
theorem guard_normalize_env_other (o : Oracle) (dumps : PyVal → Option PyVal) (repr : PyVal → PyVal) (env : PyVal)
    (h : floatFree env = false) : Src.guard_normalize_env o dumps repr env = (dumps env).getD (repr env) := by
  unfold Src.guard_normalize_env
  rw [dumpsCanon_other dumps env h]
  cases dumps env <;> rfl

theorem fstr_key (a b : String) : fstr [.str a, .str ":", .str b] = .str (a ++ ":" ++ b) := by
  simp [fstr, fstrText, String.append_assoc]

/-- **the key of the translated `_cache_key`**: `etag ++ ":" ++ canonJson env` for a string etag and a float-free env, `None` for
    the empty etag -/
theorem guard_cache_key_eq (o : Oracle) (dumps : PyVal → Option PyVal) (repr : PyVal → PyVal) (tag : String) (env : PyVal)
    (h : floatFree env = true) :
    Src.guard_cache_key o dumps repr (.str tag) env =
      if tag = "" then PyVal.none else .str (tag ++ ":" ++ String.ofList (canonChars env)) := by
  unfold Src.guard_cache_key
  rw [guard_normalize_env_eq o dumps repr env h]
  by_cases ht : tag = ""
  · subst ht; rfl
  · have : (pnot (PyVal.str tag)).truthy = false := by simp [pnot, PyVal.truthy, ht]
    simp only [this, Bool.false_eq_true, if_false, ht, strO_str, fstr_key]

/-- `None` when there is no etag (the policy could not be serialised) — for every env -/
theorem guard_cache_key_none (o : Oracle) (dumps : PyVal → Option PyVal) (repr : PyVal → PyVal) (env : PyVal) :
    Src.guard_cache_key o dumps repr PyVal.none env = PyVal.none := by
  unfold Src.guard_cache_key
  rfl

/-- the translated key IS the model's `cacheKeyOf` (whenever that is defined: float-free env) -/
theorem guard_cache_key_model (o : Oracle) (dumps : PyVal → Option PyVal) (repr : PyVal → PyVal) (tag : String) (env : PyVal) (k : String)
    (ht : tag ≠ "") (h : cacheKeyOf tag env = some k) : Src.guard_cache_key o dumps repr (.str tag) env = .str k := by
  have hf : floatFree env = true := by
    cases hff : floatFree env with
    | true => rfl
    | false => simp [cacheKeyOf, canonJson, hff] at h
  rw [guard_cache_key_eq o dumps repr tag env hf]
  simp only [cacheKeyOf, canonJson, hf, if_true, Option.map_some, Option.some.injEq] at h
  simp [ht, h]

/-- **`c08_key_injective` about the source**: two evaluations whose translated `_cache_key` returns the same string, with hex etags
    and float-free JSON envs, have the same etag and envs equal up to the order of dict entries -/
theorem guard_cache_key_injective (o o' : Oracle) (dumps dumps' : PyVal → Option PyVal) (repr repr' : PyVal → PyVal)
    (tag tag' : String) (env env' : PyVal) (ht : isHexTag tag = true) (ht' : isHexTag tag' = true) (hn : tag ≠ "") (hn' : tag' ≠ "")
    (fe : floatFree env = true) (fe' : floatFree env' = true) (ne : noDupKeys env = true) (ne' : noDupKeys env' = true)
    (h : Src.guard_cache_key o dumps repr (.str tag) env = Src.guard_cache_key o' dumps' repr' (.str tag') env') :
    tag = tag' ∧ env ≃ env' := by
  rw [guard_cache_key_eq o dumps repr tag env fe, guard_cache_key_eq o' dumps' repr' tag' env' fe'] at h
  simp only [hn, hn', if_false, PyVal.str.injEq] at h
  exact Rbacx.C08.c08_key_injective tag tag' env env' ht ht' ne ne' (tag ++ ":" ++ String.ofList (canonChars env))
    (by simp [cacheKeyOf, canonJson, fe]) (by simp [cacheKeyOf, canonJson, fe', h])

/-! ### (a) the cache range of `_evaluate_core_async` -/

/-- **the translated range IS the protocol of the models** — for every oracle, every outcome function of `cache.get`, `cache.set`
    and `_decide_async`, every value of `self.cache`, of the two generation reads, of the etag, the ttl and the env -/
theorem engine_cache_proto_eq (o : Oracle) (dumps : PyVal → Option PyVal) (repr : PyVal → PyVal)
    (get : PyVal → Option PyVal) (set : PyVal → PyVal → PyVal → Option PyVal) (dec : PyVal → Option PyVal)
    (cache g1 g2 etag ttl env : PyVal) :
    Src.engine_cache_proto o dumps repr get set dec cache g1 g2 etag ttl env =
      protoStep (!cache.isNone) (Src.guard_cache_key o dumps repr etag env) (get (Src.guard_cache_key o dumps repr etag env)) (dec env)
        (pyEq g2 g1) ttl := by
  unfold Src.engine_cache_proto protoStep
  generalize Src.guard_cache_key o dumps repr etag env = key
  simp only [isNotNone_truthy, Py.isNone, Py.eq, truthy_bool, List.nil_append]
  by_cases hc : cache.isNone = true
  · simp only [hc, Bool.not_true, Bool.false_eq_true, if_false, Bool.false_and]
    cases dec env <;> rfl
  · have hc' : cache.isNone = false := by simpa using hc
    simp only [hc', Bool.not_false, if_true, Bool.true_and]
    by_cases hk : key.truthy = true
    · simp only [hk, if_true]
      cases get key with
      | none =>
        simp only [protoMiss, getEff, setEff]
        cases dec env with
        | none => rfl
        | some raw =>
          by_cases hs : pyEq g2 g1 = true
          · simp only [hs, if_true]; cases set key raw ttl <;> rfl
          · have hs' : pyEq g2 g1 = false := by simpa using hs
            simp only [hs', none_isNone, Bool.false_eq_true, if_false, if_true]
      | some c =>
        by_cases hn : c.isNone = true
        · simp only [hn, Bool.not_true, Bool.false_eq_true, if_false, if_true, protoMiss, getEff, setEff]
          cases dec env with
          | none => rfl
          | some raw =>
            by_cases hs : pyEq g2 g1 = true
            · simp only [hs, if_true]; cases set key raw ttl <;> rfl
            · have hs' : pyEq g2 g1 = false := by simpa using hs
              simp only [hs', none_isNone, Bool.false_eq_true, if_false, if_true]
        · have hn' : c.isNone = false := by simpa using hn
          simp only [hn', Bool.not_false, if_true, Bool.false_eq_true, if_false, getEff]
    · have hk' : key.truthy = false := by simpa using hk
      simp only [hk', Bool.false_eq_true, if_false]
      cases dec env <;> rfl

/-- a HIT: the cached value is the raw decision, the only cache call is the lookup — nothing is stored, nothing is decided -/
theorem engine_cache_proto_hit (o : Oracle) (dumps : PyVal → Option PyVal) (repr : PyVal → PyVal)
    (get : PyVal → Option PyVal) (set : PyVal → PyVal → PyVal → Option PyVal) (dec : PyVal → Option PyVal)
    (cache g1 g2 etag ttl env c : PyVal) (hc : cache.isNone = false)
    (hk : (Src.guard_cache_key o dumps repr etag env).truthy = true) (hg : get (Src.guard_cache_key o dumps repr etag env) = some c)
    (hn : c.isNone = false) :
    Src.engine_cache_proto o dumps repr get set dec cache g1 g2 etag ttl env = ⟨some c, [getEff (Src.guard_cache_key o dumps repr etag env)]⟩ := by
  rw [engine_cache_proto_eq]
  simp [protoStep, hc, hk, hg, hn]

/-- a MISS (the cache answered `None`, or `cache.get` raised — `key` keeps its value): the raw decision is the decision procedure's;
    it is stored under the key iff the generation read at store time equals the one read at the start; the outcome of `cache.set`
    (returned / raised) is immaterial -/
theorem engine_cache_proto_miss (o : Oracle) (dumps : PyVal → Option PyVal) (repr : PyVal → PyVal)
    (get : PyVal → Option PyVal) (set : PyVal → PyVal → PyVal → Option PyVal) (dec : PyVal → Option PyVal)
    (cache g1 g2 etag ttl env raw : PyVal) (hc : cache.isNone = false)
    (hk : (Src.guard_cache_key o dumps repr etag env).truthy = true)
    (hg : get (Src.guard_cache_key o dumps repr etag env) = some PyVal.none ∨ get (Src.guard_cache_key o dumps repr etag env) = Option.none)
    (hd : dec env = some raw) :
    Src.engine_cache_proto o dumps repr get set dec cache g1 g2 etag ttl env =
      ⟨some raw, getEff (Src.guard_cache_key o dumps repr etag env) ::
        (if pyEq g2 g1 then [setEff (Src.guard_cache_key o dumps repr etag env) raw ttl] else [])⟩ := by
  rw [engine_cache_proto_eq]
  rcases hg with hg | hg <;> cases hs : pyEq g2 g1 <;> simp [protoStep, protoMiss, hc, hk, hg, hd, none_isNone]

/-- no cache configured, or no key (no etag): the plain decision (or its exception), no cache call -/
theorem engine_cache_proto_plain (o : Oracle) (dumps : PyVal → Option PyVal) (repr : PyVal → PyVal)
    (get : PyVal → Option PyVal) (set : PyVal → PyVal → PyVal → Option PyVal) (dec : PyVal → Option PyVal)
    (cache g1 g2 etag ttl env : PyVal) (h : cache.isNone = true ∨ (Src.guard_cache_key o dumps repr etag env).truthy = false) :
    Src.engine_cache_proto o dumps repr get set dec cache g1 g2 etag ttl env = ⟨dec env, []⟩ := by
  rw [engine_cache_proto_eq]
  rcases h with h | h <;> simp [protoStep, h]

/-- an exception of `_decide_async` escapes the range (through the `finally` that resets the context variables) -/
theorem engine_cache_proto_decide_raised (o : Oracle) (dumps : PyVal → Option PyVal) (repr : PyVal → PyVal)
    (get : PyVal → Option PyVal) (set : PyVal → PyVal → PyVal → Option PyVal) (dec : PyVal → Option PyVal)
    (cache g1 g2 etag ttl env : PyVal) (hd : dec env = Option.none)
    (hg : ∀ c, get (Src.guard_cache_key o dumps repr etag env) = some c → c.isNone = true) :
    (Src.engine_cache_proto o dumps repr get set dec cache g1 g2 etag ttl env).out = Option.none ∧
    (Src.engine_cache_proto o dumps repr get set dec cache g1 g2 etag ttl env).trace.any isSet = false := by
  rw [engine_cache_proto_eq]
  unfold protoStep
  split
  · cases hgk : get (Src.guard_cache_key o dumps repr etag env) with
    | none => simp [protoMiss, hd, getEff, isSet]
    | some c => simp [hg c hgk, protoMiss, hd, getEff, isSet]
  · simp [hd]

/-- **C09, `WellShaped`: nothing is stored if the generation moved** — integer generations that differ, every other input arbitrary -/
theorem engine_cache_proto_gen_moved (o : Oracle) (dumps : PyVal → Option PyVal) (repr : PyVal → PyVal)
    (get : PyVal → Option PyVal) (set : PyVal → PyVal → PyVal → Option PyVal) (dec : PyVal → Option PyVal)
    (cache etag ttl env : PyVal) (g1 g2 : Int) (h : g2 ≠ g1) :
    (Src.engine_cache_proto o dumps repr get set dec cache (.int g1) (.int g2) etag ttl env).trace.any isSet = false := by
  rw [engine_cache_proto_eq]
  have : pyEq (.int g2) (.int g1) = false := by simp [pyEq, h]
  rw [this]
  exact protoStep_no_set _ _ _ _ _

/-- **whatever is stored is THIS evaluation's decision under THIS evaluation's key, with the configured ttl, and the generation had
    not moved** (the hypothesis of C08's `Stored` invariant and of C09's cache invariant, read off the source) -/
theorem engine_cache_proto_stored (o : Oracle) (dumps : PyVal → Option PyVal) (repr : PyVal → PyVal)
    (get : PyVal → Option PyVal) (set : PyVal → PyVal → PyVal → Option PyVal) (dec : PyVal → Option PyVal)
    (cache g1 g2 etag ttl env k v t : PyVal)
    (h : setEff k v t ∈ (Src.engine_cache_proto o dumps repr get set dec cache g1 g2 etag ttl env).trace) :
    k = Src.guard_cache_key o dumps repr etag env ∧ dec env = some v ∧ t = ttl ∧ pyEq g2 g1 = true := by
  rw [engine_cache_proto_eq] at h
  obtain ⟨a, b, c, d, _, _⟩ := protoStep_set _ _ _ _ _ _ _ _ _ h
  exact ⟨a, b, c, d⟩

open Rbacx.CacheHist in
/-- **C08: under the sequential reading the translated range performs `stepCached`'s evaluation.**  A world whose key is the
    translated key on the encoded env (`hkey`; by `guard_cache_key_model` that is `cacheKeyOf (etag of the policy) env`), a cache
    object that answers what the abstract cache holds (`hget`), a decision procedure that answers the world's decision (`hdec`), no
    `set_policy` in between (the same generation `g` twice): the raw decision the range ends with is the one `stepCached` finishes,
    and its cache calls are exactly the operations `stepCached` appends to the history — the step `c08_transparent` is about. -/
theorem engine_cache_proto_stepCached {P E R D : Type} (w : World P E R D) (c : CacheLike R) (s : St P R c) (e : Nat) (env : E) (now : Int)
    (encE : E → PyVal) (encR : R → PyVal) (hR : ∀ r, (encR r).isNone = false) (hpost : ∀ r e, w.post r e = r)
    (o : Oracle) (dumps : PyVal → Option PyVal) (repr : PyVal → PyVal)
    (get : PyVal → Option PyVal) (set : PyVal → PyVal → PyVal → Option PyVal) (dec : PyVal → Option PyVal)
    (cache etag ttl : PyVal) (g : Int) (hc : cache.isNone = false)
    (hkey : Src.guard_cache_key o dumps repr etag (encE env) = .str (w.cacheKey (s.pols e) env))
    (hne : w.cacheKey (s.pols e) env ≠ "")
    (hget : get (.str (w.cacheKey (s.pols e) env)) =
      some (match (c.get s.cache (w.cacheKey (s.pols e) env) now).1 with | some r => encR r | Option.none => PyVal.none))
    (hdec : dec (encE env) = some (encR (w.decide (s.pols e) env))) :
    ∃ raw ops, Src.engine_cache_proto o dumps repr get set dec cache (.int g) (.int g) etag ttl (encE env) =
        ⟨some (encR raw), ops.map (encCOp encR ttl)⟩ ∧
      (stepCached w c s (.eval e env now)).2 = some (w.finish raw env) ∧
      (stepCached w c s (.eval e env now)).1.cops = s.cops ++ ops := by
  obtain ⟨raw, ops, h1, h2, h3⟩ := protoStep_stepCached w c s e env now encR hR hpost ttl hne
  refine ⟨raw, ops, ?_, h2, h3⟩
  have hg : pyEq (.int g) (.int g) = true := by simp [pyEq]
  rw [engine_cache_proto_eq, hkey, hget, hdec, hc, hg]
  exact h1

/-! ### (c) `set_policy` -/

/-- **the translated `set_policy` IS the updater program**: for every outcome of the serialiser, of sha3, of the compiler (importable
    or not) and of `cache.clear`, every old state, every new policy: the generation is bumped, the NEW policy is published, etag and
    compiled function are recomputed from the NEW policy, and the accesses are `updTrace` -/
theorem guard_set_policy_eq (dumps sha : PyVal → Option PyVal) (present : Bool) (compile : PyVal → Option PyVal) (clear : Option PyVal)
    (cache pol0 etag0 compiled0 policy : PyVal) (g : Int) :
    Src.guard_set_policy dumps sha present compile clear cache (.int g) pol0 etag0 compiled0 policy =
      ⟨some (.list [.int (g + 1), policy, newEtag dumps sha policy, newCompiled present compile compiled0 policy]),
       updTrace "_policy_lock" g policy (newEtag dumps sha policy) (newCompiled present compile compiled0 policy) present (!cache.isNone)⟩ := by
  unfold Src.guard_set_policy newEtag newCompiled updTrace
  simp only [isNotNone_truthy, addInt, List.nil_append]
  rcases Option.eq_none_or_eq_some (dumps policy) with hd | ⟨raw, hd⟩
  · rcases Bool.eq_false_or_eq_true cache.isNone with hn | hn <;>
    rcases Option.eq_none_or_eq_some (compile policy) with hc | ⟨fn, hc⟩ <;>
    rcases Option.eq_none_or_eq_some clear with hl | ⟨cl, hl⟩ <;>
    cases present <;> simp only [hn, hc, hl, hd] <;> simp
  · rcases Option.eq_none_or_eq_some (sha raw) with hs | ⟨dg, hs⟩ <;>
    rcases Bool.eq_false_or_eq_true cache.isNone with hn | hn <;>
    rcases Option.eq_none_or_eq_some (compile policy) with hc | ⟨fn, hc⟩ <;>
    rcases Option.eq_none_or_eq_some clear with hl | ⟨cl, hl⟩ <;>
    cases present <;> simp only [hn, hc, hl, hd, hs] <;> simp [hs]

/-- **C09: the access order of the translated `set_policy` is the updater program the interleaving model runs**
    (`Conc.expectedSetPolicy`: acq · rd/wr `_policy_gen` · wr `policy` · wr `policy_etag` · wr `_compiled` · cache.clear · rel; the
    updater's reads of its own policy object left out, as in `Conc.ShapeOk`) — with a cache and an importable compiler, for every
    outcome of every external -/
theorem guard_set_policy_program (dumps sha : PyVal → Option PyVal) (compile : PyVal → Option PyVal) (clear : Option PyVal)
    (cache pol0 etag0 compiled0 policy : PyVal) (g : Int) (hc : cache.isNone = false) :
    ((Src.guard_set_policy dumps sha true compile clear cache (.int g) pol0 etag0 compiled0 policy).trace.map label).filter (· != "rd policy")
      = Conc.expectedSetPolicy := by
  rw [guard_set_policy_eq, hc]
  exact updTrace_shape _ _ _ _ _

/-- every shared access and the cache call of the translated `set_policy` lie inside its ONE lock block (every configuration, every
    outcome) -/
theorem guard_set_policy_locked (dumps sha : PyVal → Option PyVal) (present : Bool) (compile : PyVal → Option PyVal) (clear : Option PyVal)
    (cache pol0 etag0 compiled0 policy : PyVal) (g : Int) :
    ∃ mid, (Src.guard_set_policy dumps sha present compile clear cache (.int g) pol0 etag0 compiled0 policy).trace =
        .acq "_policy_lock" :: (mid ++ [.rel "_policy_lock"]) ∧ mid.any isLockEff = false := by
  rw [guard_set_policy_eq]
  exact updTrace_locked _ _ _ _ _ _ _

/-- **C08: `set_policy` clears the cache** (whenever one is configured), after the new etag was written -/
theorem guard_set_policy_clears (dumps sha : PyVal → Option PyVal) (present : Bool) (compile : PyVal → Option PyVal) (clear : Option PyVal)
    (cache pol0 etag0 compiled0 policy : PyVal) (g : Int) (hc : cache.isNone = false) :
    Eff.call "cache.clear" [] ∈ (Src.guard_set_policy dumps sha present compile clear cache (.int g) pol0 etag0 compiled0 policy).trace := by
  rw [guard_set_policy_eq, hc]
  cases present <;> simp [updTrace]

/-! ### non-vacuity -/

example (o : Oracle) : (Src.engine_cache_proto o (fun _ => Option.none) (fun _ => PyVal.none) (fun _ => some PyVal.none) (fun _ _ _ => some PyVal.none)
    (fun _ => some (.dict [("decision", .str "permit")])) (.str "<cache>") (.int 3) (.int 3) (.str "ab") (.int 300) (.dict [("k", .int 0)])).trace
    = [getEff (.str "ab:{\"k\":0}"), setEff (.str "ab:{\"k\":0}") (.dict [("decision", .str "permit")]) (.int 300)] := by rfl

#print axioms guard_cache_key_eq
#print axioms guard_cache_key_injective
#print axioms engine_cache_proto_eq
#print axioms engine_cache_proto_gen_moved
#print axioms engine_cache_proto_stored
#print axioms engine_cache_proto_stepCached
#print axioms guard_set_policy_eq
#print axioms guard_set_policy_program
#print axioms guard_set_policy_locked

end Rbacx.Translated
