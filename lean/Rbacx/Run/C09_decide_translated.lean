import Rbacx.Generated
import Rbacx.Proofs.DecideTranslated
/-!
  Per-run obligation (C09, C01, C03): the DECISION DISPATCH `Guard._decide_async` and the CONSTRUCTOR `Guard.__init__` of the engine
  (core/engine.py) as they are written NOW.  harness/pytolean_decide.py (plugin `extractors/src_translation_decide.py`) translates from
  the current source text into `Rbacx.Generated.Src.*`:

  * `guard_decide_async run_compiled decide_policyset decide_policy self_compiled_1 self_policy_1 self_policy_2 self_policy_3 env : Res` —
    the whole method; the three functions run by `asyncio.to_thread` are OUTCOME parameters (`some v` returned / `none` raised), every
    textual read of `self._compiled` / `self.policy` is an input of its own (the attributes are shared with `set_policy` on other
    threads), `out` = the returned raw decision (`none`: an exception escaped), `trace` = the reads of the two shared attributes in
    program order; `EVAL_LOOP.set/reset` (try/finally) transparent, `logger.exception` a no-op.
  * `guard_init … : Res` — `__init__` as a state constructor, `_recompute_etag` translated in place.

  Proved here, about that text (library `Proofs/DecideTranslated.lean`, which does not mention it):
  (a) `guard_decide_async_eq` — NO hypothesis: the method is `DecideProto.decideProto`; corollaries `_compiled_returns` (compiled function
      present and returns ⇒ its value, ONE shared read `_compiled`, no read of `policy`, independent of what `policy` holds),
      `_fallback_set` / `_fallback_single` (absent or raised ⇒ dispatch on `"policies" in <1st read>`, evaluation of the <2nd read>),
      `_interpreter_raises` (an exception of the interpreter propagates), `_not_container` (`in` on a non-container raises),
      `guard_decide_async_program` (the accesses of a call answered by the compiled function are the `eFn` step of `Conc.stepCore`:
      `Conc.expectedEvalMiss` = lookup prefix ++ these ++ store suffix), `guard_decide_async_fallback_reads` (on the fallback path the
      method reads `policy` TWICE more — two shared steps the interleaving model does not have), and the hazard named honestly:
      `guard_decide_async_torn` (two different values for the two reads: the single-policy evaluator run on WHATEVER the second read
      holds, e.g. a set document; and the set evaluator on a single policy) with its way out `guard_decide_async_snapshot_model` (one
      value for all reads + the model's outcomes ⇒ `Rbacx.guardDecide`).
  (b) `guard_init_eq` (the constructed state is `DecideProto.initState`: gen 0, etag / compiled function computed from the constructor's
      policy by the SAME functions `set_policy` uses, default checker iff the argument is falsy), `guard_init_fresh` (it does not depend on
      any prior field value), `guard_init_compiled_assigned` (compiler importable ⇒ `_compiled` = the compiler's answer, `None` only when
      it raised), `guard_init_escapes` (only a raising `BasicObligationChecker()` / `threading.Lock()` escapes).
-/
open Rbacx Rbacx.Generated Rbacx.PyP Rbacx.PyD Rbacx.DecideProto Rbacx.Translated

namespace Rbacx.C09Decide

theorem isNotNone_truthy' (v : PyVal) : (Rbacx.Py.isNotNone v).truthy = !v.isNone := by
  cases v <;> rfl

/-- **the translated `_decide_async` is the dispatch protocol** — every outcome of every function run on a worker thread, every value
    of every read -/
theorem guard_decide_async_eq (run dset dpol : PyVal → PyVal → Option PyVal) (fn p1 p2 p3 env : PyVal) :
    Src.guard_decide_async run dset dpol fn p1 p2 p3 env = decideProto run dset dpol fn p1 p2 p3 env := by
  unfold Src.guard_decide_async decideProto fallback
  simp only [isNotNone_truthy', List.nil_append]
  rcases Bool.eq_false_or_eq_true fn.isNone with hn | hn <;>
  rcases Option.eq_none_or_eq_some (run fn env) with hr | ⟨v, hr⟩ <;>
  rcases Option.eq_none_or_eq_some (strIn "policies" p1) with hs | ⟨b, hs⟩ <;>
  rcases Option.eq_none_or_eq_some (dset p2 env) with h2 | ⟨v2, h2⟩ <;>
  rcases Option.eq_none_or_eq_some (dpol p3 env) with h3 | ⟨v3, h3⟩ <;>
  simp only [hn, hr, hs, h2, h3] <;> (try cases b) <;> simp

/-- compiled function present and it returns: ITS value; one shared read (`_compiled`), none of `policy` -/
theorem guard_decide_async_compiled_returns (run dset dpol : PyVal → PyVal → Option PyVal) (fn p1 p2 p3 env v : PyVal)
    (hfn : fn.isNone = false) (hrun : run fn env = some v) :
    Src.guard_decide_async run dset dpol fn p1 p2 p3 env = ⟨some v, [.rd "_compiled"]⟩ := by
  rw [guard_decide_async_eq, decideProto_compiled _ _ _ _ _ _ _ _ _ hfn hrun]

/-- absent or raised, FIRST read of `self.policy` has the key `policies`: the set evaluator on the SECOND read -/
theorem guard_decide_async_fallback_set (run dset dpol : PyVal → PyVal → Option PyVal) (fn p1 p2 p3 env : PyVal)
    (h : fn.isNone = true ∨ run fn env = Option.none) (hs : strIn "policies" p1 = some true) :
    (Src.guard_decide_async run dset dpol fn p1 p2 p3 env).out = dset p2 env := by
  rw [guard_decide_async_eq, decideProto_fallback _ _ _ _ _ _ _ _ h]
  simp [fallback, hs]

/-- … has not: the single-policy evaluator on the SECOND read -/
theorem guard_decide_async_fallback_single (run dset dpol : PyVal → PyVal → Option PyVal) (fn p1 p2 p3 env : PyVal)
    (h : fn.isNone = true ∨ run fn env = Option.none) (hs : strIn "policies" p1 = some false) :
    (Src.guard_decide_async run dset dpol fn p1 p2 p3 env).out = dpol p3 env := by
  rw [guard_decide_async_eq, decideProto_fallback _ _ _ _ _ _ _ _ h]
  simp [fallback, hs]

/-- an exception of the interpreter PROPAGATES (no deny is made up) -/
theorem guard_decide_async_interpreter_raises (run dset dpol : PyVal → PyVal → Option PyVal) (fn p1 p2 p3 env : PyVal)
    (h : fn.isNone = true ∨ run fn env = Option.none) (b : Bool) (hs : strIn "policies" p1 = some b)
    (hr : (if b then dset p2 env else dpol p3 env) = Option.none) :
    (Src.guard_decide_async run dset dpol fn p1 p2 p3 env).out = Option.none := by
  rw [guard_decide_async_eq, decideProto_fallback _ _ _ _ _ _ _ _ h]
  cases b <;> simp_all [fallback]

/-- `"policies" in self.policy` on a non-container (`None`, a number): the `TypeError` propagates -/
theorem guard_decide_async_not_container (run dset dpol : PyVal → PyVal → Option PyVal) (fn p1 p2 p3 env : PyVal)
    (h : fn.isNone = true ∨ run fn env = Option.none) (hs : strIn "policies" p1 = Option.none) :
    (Src.guard_decide_async run dset dpol fn p1 p2 p3 env).out = Option.none := by
  rw [guard_decide_async_eq, decideProto_fallback _ _ _ _ _ _ _ _ h]
  simp [fallback, hs]

/-- **C09: the access sequence of a decision answered by the compiled function is the evaluator program of the interleaving model**:
    `Conc.expectedEvalMiss` (the order `Run/C09_shape` checks of ONE traced run) is the lookup prefix, then the accesses of the
    translated `_decide_async`, then the store suffix — for every compiled function that returns, whatever `policy` holds -/
theorem guard_decide_async_program (run dset dpol : PyVal → PyVal → Option PyVal) (fn p1 p2 p3 env v : PyVal)
    (hfn : fn.isNone = false) (hrun : run fn env = some v) :
    Conc.expectedEvalMiss =
      ["acq", "rd _policy_gen", "rel", "rd policy_etag", "cache.get"] ++
      (Src.guard_decide_async run dset dpol fn p1 p2 p3 env).trace.map label ++
      ["acq", "rd _policy_gen", "cache.set", "rel"] := by
  rw [guard_decide_async_compiled_returns _ _ _ _ _ _ _ _ _ hfn hrun]
  exact expectedEvalMiss_split

/-- on the fallback path the method performs shared reads the interleaving model does NOT have: `policy` once (the test raised) or
    twice (test, then the argument of the interpreter) -/
theorem guard_decide_async_fallback_reads (run dset dpol : PyVal → PyVal → Option PyVal) (fn p1 p2 p3 env : PyVal)
    (h : fn.isNone = true ∨ run fn env = Option.none) (b : Bool) (hs : strIn "policies" p1 = some b) :
    (Src.guard_decide_async run dset dpol fn p1 p2 p3 env).trace.map label = ["rd _compiled", "rd policy", "rd policy"] := by
  rw [guard_decide_async_eq, decideProto_fallback _ _ _ _ _ _ _ _ h]
  cases b <;> simp [fallback, hs, label]

/-- **the hazard, named**: on the fallback path the dispatch and the evaluation read `self.policy` separately.  If a replacement falls
    between the two reads, the result is the SINGLE-policy evaluator run on whatever the second read holds — a set document, say — and,
    symmetrically, the SET evaluator run on a single policy: a decision of neither policy.  (This is why `_compiled` must not be `None`
    for a policy the compiler accepts: `guard_init_compiled_assigned`, `guard_set_policy_eq`.) -/
theorem guard_decide_async_torn (run dset dpol : PyVal → PyVal → Option PyVal) (fn single setdoc env : PyVal)
    (h : fn.isNone = true ∨ run fn env = Option.none)
    (h1 : strIn "policies" single = some false) (h2 : strIn "policies" setdoc = some true) :
    (Src.guard_decide_async run dset dpol fn single setdoc setdoc env).out = dpol setdoc env ∧
    (Src.guard_decide_async run dset dpol fn setdoc single single env).out = dset single env :=
  ⟨guard_decide_async_fallback_single _ _ _ _ _ _ _ _ h h1, guard_decide_async_fallback_set _ _ _ _ _ _ _ _ h h2⟩

/-- **C01/C09: with ONE value of `self.policy` for all reads the translated method is the model's `guardDecide`**: for any encoding of
    raw decisions, if the compiled function is the one of this policy and the three worker-thread functions answer what the model's
    `compiledDecide` / `decideTree` / `evaluate` answer, then the method returns `guardDecide`'s result (and raises where it raises) -/
theorem guard_decide_async_snapshot_model (encR : Raw → PyVal) (cx : CondCtx) (c : Consts) (kvs : List (String × PyVal))
    (run dset dpol : PyVal → PyVal → Option PyVal) (fn env : PyVal) (hfn : fn.isNone = false)
    (hrun : run fn env = (compiledDecide cx c (.dict kvs)).toOption.map encR)
    (hset : dset (.dict kvs) env = (decideTree cx c.interpDefault c.setDefault (treeOf (.dict kvs))).toOption.map encR)
    (hpol : dpol (.dict kvs) env = (evaluate cx c.interpDefault (.dict kvs)).toOption.map encR) :
    (Src.guard_decide_async run dset dpol fn (.dict kvs) (.dict kvs) (.dict kvs) env).out =
      (guardDecide cx c (.dict kvs)).toOption.map encR := by
  rw [guard_decide_async_eq]
  unfold decideProto fallback guardDecide
  simp only [hfn, strIn_dict, hrun, hset, hpol]
  cases hcd : compiledDecide cx c (.dict kvs) <;> cases hk : PyVal.hasKey (.dict kvs) "policies" <;> simp [Except.toOption]

/-! ### (b) the constructor -/

/-- **the state `__init__` constructs** — for every outcome of serialiser, sha3 and compiler (importable or not), every argument, when
    the two constructors `BasicObligationChecker()` / `threading.Lock()` return; the prior values of the fields are arbitrary -/
theorem guard_init_eq (dumps sha : PyVal → Option PyVal) (present : Bool) (compile : PyVal → Option PyVal) (basic lock : PyVal)
    (q0 q1 q2 q3 q4 q5 q6 q7 q8 q9 q10 q11 q12 : PyVal)
    (policy logger_sink metrics obligation_checker role_resolver relationship_checker cache cache_ttl strict_types : PyVal) :
    Src.guard_init dumps sha present compile (some basic) (some lock) q0 q1 q2 q3 q4 q5 q6 q7 q8 q9 q10 q11 q12
        policy logger_sink metrics obligation_checker role_resolver relationship_checker cache cache_ttl strict_types =
      ⟨some (initState dumps sha present compile basic lock policy logger_sink metrics obligation_checker role_resolver
              relationship_checker cache cache_ttl strict_types), []⟩ := by
  unfold Src.guard_init initState newEtag newCompiled
  simp only [Rbacx.Py.boolOf]
  rcases Option.eq_none_or_eq_some (dumps policy) with hd | ⟨raw, hd⟩
  · rcases Option.eq_none_or_eq_some (compile policy) with hc | ⟨f, hc⟩ <;>
    cases present <;> cases obligation_checker.truthy <;> simp [hd, hc]
  · rcases Option.eq_none_or_eq_some (sha raw) with hs | ⟨dg, hs⟩ <;>
    rcases Option.eq_none_or_eq_some (compile policy) with hc | ⟨f, hc⟩ <;>
    cases present <;> cases obligation_checker.truthy <;> simp [hd, hc, hs]

/-- the constructed state does not depend on any prior value of any field (a constructor: nothing is read before it is assigned;
    in particular `_compiled` is `None`, not stale, when the compiler is not importable) -/
theorem guard_init_fresh (dumps sha : PyVal → Option PyVal) (present : Bool) (compile : PyVal → Option PyVal) (basic lock : Option PyVal)
    (q0 q1 q2 q3 q4 q5 q6 q7 q8 q9 q10 q11 q12 r0 r1 r2 r3 r4 r5 r6 r7 r8 r9 r10 r11 r12 : PyVal)
    (policy logger_sink metrics obligation_checker role_resolver relationship_checker cache cache_ttl strict_types : PyVal) :
    Src.guard_init dumps sha present compile basic lock q0 q1 q2 q3 q4 q5 q6 q7 q8 q9 q10 q11 q12
        policy logger_sink metrics obligation_checker role_resolver relationship_checker cache cache_ttl strict_types =
    Src.guard_init dumps sha present compile basic lock r0 r1 r2 r3 r4 r5 r6 r7 r8 r9 r10 r11 r12
        policy logger_sink metrics obligation_checker role_resolver relationship_checker cache cache_ttl strict_types := by
  unfold Src.guard_init
  rfl

/-- the only exceptions that escape `__init__`: a raising `BasicObligationChecker()` (needed only for a falsy argument) or
    `threading.Lock()` -/
theorem guard_init_escapes (dumps sha : PyVal → Option PyVal) (present : Bool) (compile : PyVal → Option PyVal) (basic lock : Option PyVal)
    (q0 q1 q2 q3 q4 q5 q6 q7 q8 q9 q10 q11 q12 : PyVal)
    (policy logger_sink metrics obligation_checker role_resolver relationship_checker cache cache_ttl strict_types : PyVal) :
    (Src.guard_init dumps sha present compile basic lock q0 q1 q2 q3 q4 q5 q6 q7 q8 q9 q10 q11 q12
        policy logger_sink metrics obligation_checker role_resolver relationship_checker cache cache_ttl strict_types).out = Option.none ↔
      ((obligation_checker.truthy = false ∧ basic = Option.none) ∨ lock = Option.none) := by
  rcases Option.eq_none_or_eq_some lock with hl | ⟨lk, hl⟩
  · subst hl
    unfold Src.guard_init
    cases obligation_checker.truthy <;> rcases Option.eq_none_or_eq_some basic with hb | ⟨bc, hb⟩ <;> simp [hb]
  · subst hl
    cases ht : obligation_checker.truthy
    · rcases Option.eq_none_or_eq_some basic with hb | ⟨bc, hb⟩
      · subst hb
        unfold Src.guard_init
        simp [ht]
      · subst hb
        rw [guard_init_eq]
        simp
    · have : Src.guard_init dumps sha present compile basic (some lk) q0 q1 q2 q3 q4 q5 q6 q7 q8 q9 q10 q11 q12
          policy logger_sink metrics obligation_checker role_resolver relationship_checker cache cache_ttl strict_types =
          Src.guard_init dumps sha present compile (some .none) (some lk) q0 q1 q2 q3 q4 q5 q6 q7 q8 q9 q10 q11 q12
          policy logger_sink metrics obligation_checker role_resolver relationship_checker cache cache_ttl strict_types := by
        unfold Src.guard_init
        simp [ht]
      rw [this, guard_init_eq]
      simp

/-- the components of a constructed state -/
def field (i : Nat) (st : PyVal) : PyVal := match st with | .list xs => xs.getD i .none | _ => .none

/-- **C03/C09: for every policy, with an importable compiler, `_compiled` IS assigned by the first `_recompute_etag`**: the compiler's
    answer on the constructor's policy, `None` only when the compiler raised; the generation starts at 0; the etag is the one
    `set_policy` would compute for the same policy (`newEtag`, the function of `guard_set_policy_eq`): `policy`, `policy_etag`, `_compiled`
    are installed CONSISTENTLY — the initial state `Conc.init` assumes (`pol := p0, etag := tagOf p0, fn := p0`, generation 0) -/
theorem guard_init_compiled_assigned (dumps sha : PyVal → Option PyVal) (compile : PyVal → Option PyVal) (basic lock : PyVal)
    (policy logger_sink metrics obligation_checker role_resolver relationship_checker cache cache_ttl strict_types : PyVal) :
    let st := initState dumps sha true compile basic lock policy logger_sink metrics obligation_checker role_resolver
                relationship_checker cache cache_ttl strict_types
    field 0 st = policy ∧ field 7 st = newEtag dumps sha policy ∧ field 8 st = (compile policy).getD .none ∧ field 12 st = .int 0 ∧
    (∀ f, compile policy = some f → field 8 st = f) ∧ (field 8 st = .none → compile policy = Option.none ∨ compile policy = some .none) := by
  simp only [initState, field, newCompiled, List.getD]
  refine ⟨rfl, rfl, rfl, rfl, ?_, ?_⟩
  · intro f hf; simp [hf]
  · intro h
    rcases Option.eq_none_or_eq_some (compile policy) with hc | ⟨f, hc⟩
    · exact Or.inl hc
    · simp [hc] at h; subst h; exact Or.inr hc

/-- `__init__(p)` followed by nothing and `set_policy(p)` on any older state install the SAME (`policy`, `policy_etag`, `_compiled`)
    when the compiler is importable (reading `guard_set_policy_eq` of `Run/C08_translated`: `[g+1, p, newEtag … p, newCompiled true … p]`) -/
theorem guard_init_agrees_with_set_policy (dumps sha : PyVal → Option PyVal) (compile : PyVal → Option PyVal) (basic lock old : PyVal)
    (policy logger_sink metrics obligation_checker role_resolver relationship_checker cache cache_ttl strict_types : PyVal) :
    let st := initState dumps sha true compile basic lock policy logger_sink metrics obligation_checker role_resolver
                relationship_checker cache cache_ttl strict_types
    [field 0 st, field 7 st, field 8 st] = [policy, newEtag dumps sha policy, newCompiled true compile old policy] := by
  simp [initState, field, newCompiled]

/-! ### non-vacuity -/

/-- the torn read on concrete documents: test on the single policy, evaluation of the set document by the single-policy evaluator -/
example :
    (Src.guard_decide_async (fun _ _ => Option.none) (fun p _ => some (.list [.str "set-evaluator", p]))
        (fun p _ => some (.list [.str "single-evaluator", p])) .none
        (.dict [("rules", .list [])]) (.dict [("policies", .list [])]) (.dict [("policies", .list [])]) (.dict [])).out
      = some (.list [.str "single-evaluator", .dict [("policies", .list [])]]) := by
  rw [guard_decide_async_eq]; simp [decideProto, fallback, strIn_dict, PyVal.hasKey, PyVal.lookup, PyVal.isNone]

example : (Src.guard_decide_async (fun _ e => some e) (fun _ _ => Option.none) (fun _ _ => Option.none) (.str "fn") .none .none .none
    (.dict [])) = ⟨some (.dict []), [.rd "_compiled"]⟩ := by
  rw [guard_decide_async_eq]; simp [decideProto, PyVal.isNone]

end Rbacx.C09Decide

open Rbacx.C09Decide in
#print axioms guard_decide_async_eq
#print axioms Rbacx.C09Decide.guard_decide_async_program
#print axioms Rbacx.C09Decide.guard_decide_async_torn
#print axioms Rbacx.C09Decide.guard_decide_async_snapshot_model
#print axioms Rbacx.C09Decide.guard_init_eq
#print axioms Rbacx.C09Decide.guard_init_fresh
#print axioms Rbacx.C09Decide.guard_init_escapes
#print axioms Rbacx.C09Decide.guard_init_compiled_assigned
