import Rbacx.Generated
import Rbacx.Proofs.DecideTranslated
/-!
  Per-run obligation (C09): the EVALUATOR'S ACCESS PROGRAM from the source text.  The statements of `Guard._evaluate_core_async` between
  the env range and the gate range (the same statements as `Src.engine_cache_proto` of C08_translated) are translated once more by
  harness/pytolean_decide.py (plugin `extractors/src_translation_decide.py`, target `engine_eval_program`) with the lock blocks and the
  reads of `_policy_gen` as EFFECTS and `self._cache_key(env)` / `await self._decide_async(env)` as labelled calls; `Src.cacheKeyReads` is
  the list of the attributes of `self` that `_cache_key` (with the methods it calls) reads, extracted syntactically, one entry per
  textual read.

  Proved: for every outcome of every collaborator, with a cache and a truthy key,
  * `engine_eval_program_miss` — lookup answers `None`, the decision returns, the generation is unchanged: the labels are
    acq · rd _policy_gen · rel · _cache_key · cache.get · _decide_async · acq · rd _policy_gen · cache.set · rel;
  * `engine_eval_program_hit` — lookup answers a value: acq · rd _policy_gen · rel · _cache_key · cache.get;
  * `engine_eval_program_moved` — as miss, generation changed: no `cache.set`, the second lock block is still closed;
  * **`engine_eval_program_is_model_miss` / `_hit`** — with `_cache_key` expanded to the reads `Src.cacheKeyReads` says it makes and
    `_decide_async` expanded to the access sequence of the translated `Src.guard_decide_async` (compiled function present and returning),
    these ARE `Conc.expectedEvalMiss` / `Conc.expectedEvalHit` — the programs `Conc.stepCore` runs and `Run/C09_shape` compares ONE traced
    run with.  In particular `rd policy_etag` lies AFTER the first lock block and BEFORE `cache.get`, `rd _compiled` after the lookup and
    before the second lock block — from the text, for every outcome.
-/
open Rbacx Rbacx.Generated Rbacx.PyP

namespace Rbacx.C09Program

/-- a label of the range's trace in the vocabulary of the tracer: the two method calls stand for the shared reads they make -/
def expand (keyReads decide : List String) (s : String) : List String :=
  if s = "_cache_key" then keyReads.map ("rd " ++ ·) else if s = "_decide_async" then decide else [s]

theorem isNotNone_truthy'' (v : PyVal) : (Rbacx.Py.isNotNone v).truthy = !v.isNone := by cases v <;> rfl
theorem isNone_truthy'' (v : PyVal) : (Rbacx.Py.isNone v).truthy = v.isNone := by cases v <;> rfl

theorem engine_eval_program_miss (ck cg : PyVal → Option PyVal) (cs : PyVal → PyVal → PyVal → Option PyVal) (da : PyVal → Option PyVal)
    (cache g1 g2 ttl env key raw : PyVal) (hc : cache.isNone = false) (hk : ck env = some key) (hkt : key.truthy = true)
    (hmiss : cg key = some .none ∨ cg key = Option.none) (hd : da env = some raw) (hg : (Rbacx.Py.eq g2 g1).truthy = true) :
    (Src.engine_eval_program ck cg cs da cache g1 g2 ttl env).trace.map label =
      ["acq", "rd _policy_gen", "rel", "_cache_key", "cache.get", "_decide_async", "acq", "rd _policy_gen", "cache.set", "rel"] := by
  unfold Src.engine_eval_program
  simp only [isNotNone_truthy'', isNone_truthy'', hc, hk, hkt, hd, hg]
  rcases hmiss with h | h <;> rcases Option.eq_none_or_eq_some (cs key raw ttl) with h2 | ⟨v2, h2⟩ <;> simp [h, h2, label, PyVal.isNone]

theorem engine_eval_program_moved (ck cg : PyVal → Option PyVal) (cs : PyVal → PyVal → PyVal → Option PyVal) (da : PyVal → Option PyVal)
    (cache g1 g2 ttl env key raw : PyVal) (hc : cache.isNone = false) (hk : ck env = some key) (hkt : key.truthy = true)
    (hmiss : cg key = some .none ∨ cg key = Option.none) (hd : da env = some raw) (hg : (Rbacx.Py.eq g2 g1).truthy = false) :
    (Src.engine_eval_program ck cg cs da cache g1 g2 ttl env).trace.map label =
      ["acq", "rd _policy_gen", "rel", "_cache_key", "cache.get", "_decide_async", "acq", "rd _policy_gen", "rel"] := by
  unfold Src.engine_eval_program
  simp only [isNotNone_truthy'', isNone_truthy'', hc, hk, hkt, hd, hg]
  rcases hmiss with h | h <;> simp [h, label, PyVal.isNone]

theorem engine_eval_program_hit (ck cg : PyVal → Option PyVal) (cs : PyVal → PyVal → PyVal → Option PyVal) (da : PyVal → Option PyVal)
    (cache g1 g2 ttl env key v : PyVal) (hc : cache.isNone = false) (hk : ck env = some key) (hkt : key.truthy = true)
    (hhit : cg key = some v) (hv : v.isNone = false) :
    Src.engine_eval_program ck cg cs da cache g1 g2 ttl env =
      ⟨some v, [.acq "_policy_lock", .rd "_policy_gen", .rel "_policy_lock", .call "_cache_key" [env], .call "cache.get" [key]]⟩ := by
  unfold Src.engine_eval_program
  simp [isNotNone_truthy'', isNone_truthy'', hc, hk, hkt, hhit, hv]

/-- the accesses of the translated `_decide_async` when the compiled function is present and returns (proved here from the generated text, so
    that this obligation does not depend on `C09_decide_translated`, which says the same and much more) -/
theorem decide_compiled_accesses (run dset dpol : PyVal → PyVal → Option PyVal) (fn p1 p2 p3 env v : PyVal)
    (hfn : fn.isNone = false) (hrun : run fn env = some v) :
    (Src.guard_decide_async run dset dpol fn p1 p2 p3 env).trace.map label = ["rd _compiled"] := by
  unfold Src.guard_decide_async
  simp [isNotNone_truthy'', hfn, hrun, label]

/-- what `_cache_key` reads of `self`, by the text: the etag, once -/
theorem cacheKeyReads_eq : Src.cacheKeyReads = ["policy_etag"] := by decide

/-- **C09: the evaluator program of the interleaving model, from the source text** (miss): the range's accesses, with `_cache_key` standing
    for the read it makes and `_decide_async` for the accesses of the translated method when the compiled function answers -/
theorem engine_eval_program_is_model_miss (ck cg : PyVal → Option PyVal) (cs : PyVal → PyVal → PyVal → Option PyVal) (da : PyVal → Option PyVal)
    (cache g1 g2 ttl env key raw : PyVal) (hc : cache.isNone = false) (hk : ck env = some key) (hkt : key.truthy = true)
    (hmiss : cg key = some .none ∨ cg key = Option.none) (hd : da env = some raw) (hg : (Rbacx.Py.eq g2 g1).truthy = true)
    (run dset dpol : PyVal → PyVal → Option PyVal) (fn p1 p2 p3 v : PyVal) (hfn : fn.isNone = false) (hrun : run fn env = some v) :
    ((Src.engine_eval_program ck cg cs da cache g1 g2 ttl env).trace.map label).flatMap
        (expand Src.cacheKeyReads ((Src.guard_decide_async run dset dpol fn p1 p2 p3 env).trace.map label)) = Conc.expectedEvalMiss := by
  rw [engine_eval_program_miss ck cg cs da cache g1 g2 ttl env key raw hc hk hkt hmiss hd hg,
      decide_compiled_accesses _ _ _ _ _ _ _ _ _ hfn hrun, cacheKeyReads_eq]
  simp [expand, label, Conc.expectedEvalMiss]

theorem engine_eval_program_is_model_hit (ck cg : PyVal → Option PyVal) (cs : PyVal → PyVal → PyVal → Option PyVal) (da : PyVal → Option PyVal)
    (cache g1 g2 ttl env key v : PyVal) (hc : cache.isNone = false) (hk : ck env = some key) (hkt : key.truthy = true)
    (hhit : cg key = some v) (hv : v.isNone = false) (dec : List String) :
    ((Src.engine_eval_program ck cg cs da cache g1 g2 ttl env).trace.map label).flatMap (expand Src.cacheKeyReads dec) = Conc.expectedEvalHit := by
  rw [engine_eval_program_hit ck cg cs da cache g1 g2 ttl env key v hc hk hkt hhit hv, cacheKeyReads_eq]
  simp [expand, label, Conc.expectedEvalHit]

end Rbacx.C09Program

#print axioms Rbacx.C09Program.engine_eval_program_is_model_miss
#print axioms Rbacx.C09Program.engine_eval_program_is_model_hit
#print axioms Rbacx.C09Program.engine_eval_program_moved
