import Rbacx.Generated
import Rbacx.Model.Conc
/-! Per-run obligation: the shared-access order traced from the real Guard is the one the interleaving model runs. -/
example : Rbacx.Conc.ShapeOk Rbacx.Generated.guardEvalMiss Rbacx.Generated.guardEvalHit Rbacx.Generated.guardSetPolicy = true := by decide
