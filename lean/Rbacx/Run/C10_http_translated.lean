import Rbacx.Generated
import Rbacx.Proofs.HttpTranslated
/-!
  PER-RUN OBLIGATION (C10, and C17 for the parser hints): `HTTPPolicySource.load` / `etag` / the state-creating statements of
  `__init__` (store/http_store.py) AS THE SOURCE HAS THEM NOW — `Rbacx.Generated.Src.http_load` / `http_etag` / `http_init`, written on
  every run by harness/pytolean_http.py (plugin harness/extractors/src_translation_http.py) — against the hand-written model
  `Rbacx.Reloader.httpLoad` / `httpEtag` (Model/Sources.lean) over which `Rbacx.C10.c10_converges_http_partial`,
  `c10_http_cached_tag_counterexample`, `c10_http_remote_tag_converges` are stated.

  Every theorem quantifies over ALL outcome parameters (the response object is a record of outcomes `PyH.Resp`); proofs are by the
  compositional postcondition rules of `Proofs/HttpTranslated.lean` (one goal per leaf of the text) and by evaluation of a prefix under
  the hypotheses that decide its tests — no enumeration.

  * `http_load_eq`  refinement `Answers` (outcomes reflect the model world) + `StSim` (fields represent the model's client state)
    ⇒ the translated `load` returns `httpLoad`'s result and leaves `httpLoad`'s next state.
  * `http_etag_eq` / `http_etag_model`  `etag()` = the remembered tag; no collaborator parameter exists (F9).
  * `http_load_failure_keeps_cache`, `http_load_etag_after`, `http_load_import_fails`, `http_load_transport_fails`,
    `http_load_status_raises`, `http_load_not_modified`  what a failing / non-200 load changes: exactly nothing, except that a failure
    AFTER the status check (parser, validator) has already remembered the new tag.
  * `http_load_request`, `http_request_inm_model`  the one request and its `If-None-Match`.
  * `http_load_parser_hints`, `http_load_parser_filename`  (C17 / F20) where a returned document comes from.
  * `http_load_validates_before_caching`  with `validate_schema` only validated documents are cached or returned.
  * `http_init_eq`.
-/
namespace Rbacx.Translated
open Rbacx Rbacx.Generated Rbacx.PyH Rbacx.Reloader PyVal

attribute [local irreducible] PyH.thenFlow PyH.bindE PyH.tryCatch PyH.finish PyH.SatI PyH.SatT PyH.SatN

/-- a leaf of a header segment: an exception out of `headers.get` is an `Exception` (`hE`), so the handler's `None` is handed on -/
macro "header_leaf" hE:ident : tactic => `(tactic| (
  try (have hc := $hE _ _ ‹_ = Except.error _›)
  simp_all [etagHeaderOf, contentTypeOf, headerOf, SatN, pand_b2v_truthy, isNone_truthy, b2v_truthy, isInstance_str_truthy, Resp.hget]
  <;> (try ((repeat' split) <;> simp_all))))

section
variable (url headers vs : PyVal) (imp : Except PyH.Exc PyVal) (get : PyVal → PyVal → PyVal → Except PyH.Exc PyH.Resp)
  (parse : PyVal → PyVal → PyVal → Except PyH.Exc PyVal) (validate : PyVal → Except PyH.Exc PyVal) (detect : PyVal → PyVal → PyVal)
  (st : Src.http_State)

theorem http_load_failure_keeps_cache (e : PyH.Exc)
    (h : (Src.http_load url headers vs imp get parse validate detect st).2 = .error e) :
    (Src.http_load url headers vs imp get parse validate detect st).1.policy_cache = st.policy_cache := by
  simp only [Src.http_load] at h ⊢
  refine satT_finish_error (I := fun s => s.policy_cache = st.policy_cache) (R := fun _ _ => True)
    (E := fun s _ => s.policy_cache = st.policy_cache) ?_ e h
  clear h
  sat_steps
  all_goals (simp_all)

/-- with `validate_schema`, a load that returns hands out either the cached policy / `{}` (a 304: cache untouched) or a document that
    `validate_policy` ACCEPTED in this very call and that is now the cache — on all three return paths (fast path, last-resort
    `.json()`, text); nothing else is ever stored -/
theorem http_load_validates_before_caching (hvs : vs.truthy = true) (v : PyVal)
    (h : (Src.http_load url headers vs imp get parse validate detect st).2 = .ok v) :
    ((Src.http_load url headers vs imp get parse validate detect st).1.policy_cache = st.policy_cache ∧ (v = st.policy_cache ∨ v = .dict []))
    ∨ ((Src.http_load url headers vs imp get parse validate detect st).1.policy_cache = v ∧ ∃ u, validate v = .ok u) := by
  simp only [Src.http_load, hvs, if_true, thenFlow_bindE, thenFlow_next] at h ⊢
  refine satT_finish_ok (I := fun s => s.policy_cache = st.policy_cache)
    (R := fun s v => (s.policy_cache = st.policy_cache ∧ (v = st.policy_cache ∨ v = .dict [])) ∨ (s.policy_cache = v ∧ ∃ u, validate v = .ok u))
    (E := fun _ _ => True) ?_ v h
  clear h
  sat_steps
  all_goals (simp_all)

/-! ### `etag()` and `__init__` -/

/-- `etag()` answers the remembered tag and changes nothing; its translation HAS no collaborator parameter: it contacts nothing
    (known finding F9: the tag is the one the last `load()` remembered, not the server's) -/
theorem http_etag_eq : Src.http_etag url headers vs st = (st, .ok st.etag) := by
  simp only [Src.http_etag, finish_ret]

/-- the same against the model: the cached-tag variant of `httpEtag` (`tagIsRemote = false`), whatever the server holds -/
theorem http_etag_model (enc : Doc → PyVal) (w : HttpW) (hw : w.tagIsRemote = false) (hs : StSim enc w st.etag st.policy_cache) :
    (∃ o, (httpEtag w).1 = .ok o ∧ (Src.http_etag url headers vs st).2 = .ok (obsVal o)) ∧ (httpEtag w).2 = w
      ∧ StSim enc (httpEtag w).2 (Src.http_etag url headers vs st).1.etag (Src.http_etag url headers vs st).1.policy_cache := by
  rcases hs with ⟨he, hc⟩
  simp only [http_etag_eq, httpEtag, hw]
  cases hct : w.cachedTag <;> simp_all [obsVal, Rbacx.PyR.tagVal, StSim]

/-- the constructor's state: nothing remembered, nothing cached — whatever the fields held -/
theorem http_init_eq : Src.http_init url headers vs st = ({ etag := .none, policy_cache := .none }, .ok .none) := by
  simp only [Src.http_init, finish_next]

/-! ### the paths that change NOTHING -/

/-- `import requests` fails with an `Exception`: RuntimeError, nothing contacted, nothing changed -/
theorem http_load_import_fails (e : PyH.Exc) (hi : imp = .error e) (hc : Rbacx.PyX.catches ["Exception"] e = true) :
    Src.http_load url headers vs imp get parse validate detect st = (st, .error { cls := "RuntimeError" }) := by
  simp only [Src.http_load, hi, bindE_error, tryCatch_error, hc, if_true, thenFlow_error, finish_error]

/-- the ONE request: `requests.get(url, headers = the user's + If-None-Match when a tag is remembered and the user did not set it,
    timeout = 5)` — `load()` depends on `requests.get` through this call only -/
theorem http_load_request (get' : PyVal → PyVal → PyVal → Except PyH.Exc PyH.Resp)
    (h : get url (sentHeaders headers st.etag) (.int 5) = get' url (sentHeaders headers st.etag) (.int 5)) :
    Src.http_load url headers vs imp get parse validate detect st = Src.http_load url headers vs imp get' parse validate detect st := by
  simp only [sentHeaders] at h
  cases imp with
  | error e =>
    simp only [Src.http_load, bindE_error, tryCatch_error]
    split <;> simp only [thenFlow_error, finish_error]
  | ok u =>
    simp only [Src.http_load, bindE_ok, tryCatch_next, thenFlow_next, thenFlow_ite_next, h]

/-- a transport error: it escapes, nothing changed -/
theorem http_load_transport_fails (u : PyVal) (hi : imp = .ok u) (e : PyH.Exc)
    (hg : get url (sentHeaders headers st.etag) (.int 5) = .error e) :
    Src.http_load url headers vs imp get parse validate detect st = (st, .error e) := by
  simp only [sentHeaders] at hg
  simp only [Src.http_load, hi, bindE_ok, tryCatch_next, thenFlow_next, thenFlow_ite_next, hg, bindE_error, finish_error]

/-- 304: the cached policy, `{}` when there is none; nothing changed (the ETag header of a 304 is not even read) -/
theorem http_load_not_modified (u : PyVal) (hi : imp = .ok u) (r : PyH.Resp)
    (hg : get url (sentHeaders headers st.etag) (.int 5) = .ok r) (h304 : pyEq (r.attr "status_code") (.int 304) = true) :
    Src.http_load url headers vs imp get parse validate detect st
      = (st, .ok (if st.policy_cache.isNone then .dict [] else st.policy_cache)) := by
  simp only [sentHeaders] at hg
  simp only [Src.http_load, hi, bindE_ok, tryCatch_next, thenFlow_next, thenFlow_ite_next, hg, eq_truthy, h304, if_true,
    isNotNone_truthy]
  by_cases hn : st.policy_cache.isNone = true
  · simp [hn]
  · simp [hn]

/-- an error status (`raise_for_status()` raises): it escapes, NOTHING changed — neither the tag nor the cache -/
theorem http_load_status_raises (u : PyVal) (hi : imp = .ok u) (r : PyH.Resp)
    (hg : get url (sentHeaders headers st.etag) (.int 5) = .ok r) (h304 : pyEq (r.attr "status_code") (.int 304) = false)
    (e : PyH.Exc) (hr : r.callRaise = .error e) (hh : r.has "raise_for_status" = true) :
    Src.http_load url headers vs imp get parse validate detect st = (st, .error e) := by
  simp only [sentHeaders] at hg
  simp only [Src.http_load, hi, bindE_ok, tryCatch_next, thenFlow_next, thenFlow_ite_next, hg, eq_truthy, h304, b2v_truthy, hh, hr,
    bindE_error, thenFlow_error, if_true]
  simp

/-! ### what happens to `_etag` -/

/-- once the answer is neither a 304 nor an error status, `_etag` is settled BEFORE the body is looked at: whatever happens next
    — the body does not parse, validation rejects it, `.json()` raises, or the load succeeds — the tag afterwards is the `ETag` header
    when that is a non-empty str, and the previous tag otherwise.  (So a load that FAILS in the parser or the validator has
    already remembered the new tag, while `_policy_cache` is still the old document: `http_load_failure_keeps_cache`.) -/
theorem http_load_etag_after (u : PyVal) (hi : imp = .ok u) (r : PyH.Resp)
    (hg : get url (sentHeaders headers st.etag) (.int 5) = .ok r) (h304 : pyEq (r.attr "status_code") (.int 304) = false)
    (hr : r.has "raise_for_status" = true → ∃ x, r.callRaise = .ok x) (hE : HeadersRaiseExceptions r) :
    (Src.http_load url headers vs imp get parse validate detect st).1.etag = newEtag st.etag r := by
  simp only [sentHeaders] at hg
  simp only [Src.http_load, hi, bindE_ok, tryCatch_next, thenFlow_next, thenFlow_ite_next, hg, eq_truthy, h304, Bool.false_eq_true,
    if_false]
  refine satT_finish_all (P := fun (s : Src.http_State) => s.etag = newEtag st.etag r) ?_
  apply satT_thenFlow' (I := fun (s : Src.http_State) => s = st) (I' := fun (s : Src.http_State) => s = st)
  · sat_steps
    all_goals simp_all
  intro s _ hs
  subst hs
  apply satT_thenFlowN (N := fun s' v => s' = s ∧ v = etagHeaderOf r)
  · satn_steps
    all_goals header_leaf hE
  rintro s' v ⟨rfl, rfl⟩
  apply satT_thenFlow' (I := fun (s : Src.http_State) => s.etag = newEtag s'.etag r) (I' := fun (s : Src.http_State) => s.etag = newEtag s'.etag r)
  · sat_steps
    all_goals simp_all [newEtag, isStr_pand_truthy]
  intro s _ hs
  sat_steps
  all_goals simp_all

/-! ### the parser hints (C17, fixed finding F20) -/

/-- where a returned document can come from -/
def Provenance (cache : PyVal) (r : PyH.Resp) (url : PyVal) (detect : PyVal → PyVal → PyVal)
    (parse : PyVal → PyVal → PyVal → Except PyH.Exc PyVal) (v : PyVal) : Prop :=
  v = cache ∨ v = .dict []
  ∨ (r.callJson 1 = .ok v ∧ r.has "json" = true ∧ pyEq (detect url (contentTypeOf r)) (.str "json") = true)
  ∨ (r.callJson 2 = .ok v ∧ (Rbacx.Py.contains (Rbacx.Py.lower (contentTypeOf r)) (.str "json")).truthy = true)
  ∨ (∃ t, parse t url (contentTypeOf r) = .ok v)

/-- a document `load()` returns is the cached one / `{}` (304), or the response's own `.json()` on the FAST PATH — taken only when
    `_detect_format(filename=url, content_type=ct) == "json"` for the very `ct` read from the `Content-Type` header —, or the
    last-resort `.json()` (only when `"json" in ct.lower()`), or what `parse_policy_text(…, filename=url, content_type=ct)` returned for
    exactly these hints -/
theorem http_load_parser_hints (u : PyVal) (hi : imp = .ok u) (r : PyH.Resp)
    (hg : get url (sentHeaders headers st.etag) (.int 5) = .ok r) (hE : HeadersRaiseExceptions r) (v : PyVal)
    (h : (Src.http_load url headers vs imp get parse validate detect st).2 = .ok v) :
    Provenance st.policy_cache r url detect parse v := by
  simp only [sentHeaders] at hg
  simp only [Src.http_load, hi, bindE_ok, tryCatch_next, thenFlow_next, thenFlow_ite_next, hg] at h
  refine satT_finish_ok (I := fun (s : Src.http_State) => s.policy_cache = st.policy_cache)
    (R := fun _ v => Provenance st.policy_cache r url detect parse v) (E := fun _ _ => True) ?_ v h
  clear h
  apply satT_thenFlow
  · sat_steps
    all_goals simp_all [Provenance]
  intro _ _ _
  apply satT_thenFlow
  · sat_steps
    all_goals simp_all
  intro _ _ _
  apply satT_thenFlow
  · sat_steps
    all_goals simp_all
  intro _ _ _
  apply satT_thenFlow
  · sat_steps
    all_goals simp_all
  intro s0 _ hs0
  apply satT_thenFlowN (N := fun (s : Src.http_State) c => s.policy_cache = st.policy_cache ∧ c = contentTypeOf r)
  · satn_steps
    all_goals header_leaf hE
  rintro s1 c ⟨hs1, rfl⟩
  sat_steps
  all_goals first
    | (simp_all [Provenance, pand_truthy, b2v_truthy, eq_truthy, isInstance_dict_truthy, PyVal.isDict]; done)
    | exact Or.inr (Or.inr (Or.inr (Or.inr ⟨_, ‹_›⟩)))
    | trace_state

/-- `parse_policy_text` is consulted with `filename = url` only -/
theorem http_load_parser_filename (parse' : PyVal → PyVal → PyVal → Except PyH.Exc PyVal) (h : ∀ t c, parse t url c = parse' t url c) :
    Src.http_load url headers vs imp get parse validate detect st = Src.http_load url headers vs imp get parse' validate detect st := by
  simp only [Src.http_load, h]

/-! ### equality with the model `Rbacx.Reloader.httpLoad` -/

/-- the 200 path in closed form: a body that denotes the stored content `b` (`Delivers`) is returned and cached when `b` parses,
    and raises JSONDecodeError with the cache untouched when it does not — on either outcome the tag is already `newEtag` -/
theorem http_load_ok_path (enc : Doc → PyVal) (b : Blob) (hdict : ∀ d, (enc d).isDict = true) (hvs : vs.truthy = false)
    (u : PyVal) (hi : imp = .ok u) (r : PyH.Resp)
    (hg : get url (sentHeaders headers st.etag) (.int 5) = .ok r) (h304 : pyEq (r.attr "status_code") (.int 304) = false)
    (hr : r.has "raise_for_status" = true → ∃ x, r.callRaise = .ok x) (hE : HeadersRaiseExceptions r)
    (hD : Delivers enc b r url parse) :
    (∀ v, (Src.http_load url headers vs imp get parse validate detect st).2 = .ok v →
      b.valid = true ∧ v = enc b.doc
      ∧ (Src.http_load url headers vs imp get parse validate detect st).1 = { etag := newEtag st.etag r, policy_cache := enc b.doc })
    ∧ (∀ e, (Src.http_load url headers vs imp get parse validate detect st).2 = .error e →
      b.valid = false ∧ Rbacx.PyR.excOf e.cls = .jsonDecode
      ∧ (Src.http_load url headers vs imp get parse validate detect st).1 = { etag := newEtag st.etag r, policy_cache := st.policy_cache }) := by
  simp only [sentHeaders] at hg
  simp only [Src.http_load, hi, bindE_ok, tryCatch_next, thenFlow_next, thenFlow_ite_next, hg, eq_truthy, h304, Bool.false_eq_true,
    if_false, hvs]
  refine satT_finish (I := fun (s : Src.http_State) => s = { etag := newEtag st.etag r, policy_cache := st.policy_cache })
    (R := fun s v => b.valid = true ∧ v = enc b.doc ∧ s = { etag := newEtag st.etag r, policy_cache := enc b.doc })
    (E := fun s e => b.valid = false ∧ Rbacx.PyR.excOf e.cls = .jsonDecode ∧ s = { etag := newEtag st.etag r, policy_cache := st.policy_cache }) ?_
  apply satT_thenFlow' (I := fun (s : Src.http_State) => s = st) (I' := fun (s : Src.http_State) => s = st)
  · sat_steps
    all_goals simp_all
  intro s _ hs
  subst hs
  apply satT_thenFlowN (N := fun s' v => s' = s ∧ v = etagHeaderOf r)
  · satn_steps
    all_goals header_leaf hE
  rintro s' v ⟨rfl, rfl⟩
  apply satT_thenFlow' (I := fun (s : Src.http_State) => s = { etag := newEtag s'.etag r, policy_cache := s'.policy_cache })
    (I' := fun (s : Src.http_State) => s = { etag := newEtag s'.etag r, policy_cache := s'.policy_cache })
  · sat_steps
    all_goals (simp_all [newEtag, isStr_pand_truthy]) <;> (try (split <;> simp_all))
  intro s _ hs
  sat_steps
  all_goals (
    try (have hj := hD.json_ok _ _ ‹PyH.Resp.callJson _ _ = Except.ok _›)
    try (have hje := hD.json_err _ _ ‹PyH.Resp.callJson _ _ = Except.error _›)
    try (have hde := hD.decode_err _ _ ‹PyH.Resp.decode _ _ = Except.error _›)
    try (have hp := hD.parse_ok _ _ _ ‹parse _ _ _ = Except.ok _›)
    try (have hpe := hD.parse_err _ _ _ ‹parse _ _ _ = Except.error _›)
    try (have hce := hE _ _ ‹PyH.Resp.hget _ _ = Except.error _›)
    simp_all [isInstance_dict_truthy, PyVal.isDict])

/-- `If-None-Match` as the model has it: when the user's headers do not set it, the request carries the model's `inm` -/
theorem http_request_inm_model (kvs : List (String × PyVal)) (w : HttpW) (hu : lookup "If-None-Match" kvs = Option.none) :
    (sentHeaders (.dict kvs) (Rbacx.PyR.tagVal w.cachedTag)).get "If-None-Match" = Rbacx.PyR.tagVal w.inm := by
  rw [sentHeaders_inm, hu]
  unfold HttpW.inm
  cases hc : w.cachedTag with
  | none => simp [Rbacx.PyR.tagVal, PyVal.truthy]
  | some t =>
    by_cases ht : t = ""
    · simp [Rbacx.PyR.tagVal, PyVal.truthy, ht]
    · simp [Rbacx.PyR.tagVal, PyVal.truthy, ht]

/-- `load()` as written now IS the model's `httpLoad`: when the two fields represent the model's client state (`StSim`) and the
    outcome of the one request and of the parsers reflect the model's world (`Answers`: transport fault / error status / 404 / 304 /
    200 whose `ETag` header is the server's tag and whose body denotes the stored content), without schema validation, the
    translated `load` returns what `httpLoad` returns and leaves the fields representing `httpLoad`'s next state: the tag is
    remembered iff the server sent a non-empty `ETag` on a non-304 answer, a 304 answers the cached policy (`{}` when none), an error
    status raises and changes nothing, a body that does not parse raises JSONDecodeError AFTER the tag was remembered -/
theorem http_load_eq (enc : Doc → PyVal) (w : HttpW) (hdict : ∀ d, (enc d).isDict = true) (hempty : enc emptyDoc = .dict [])
    (hvs : vs.truthy = false) (u : PyVal) (hi : imp = .ok u) (hs : StSim enc w st.etag st.policy_cache)
    (hA : Answers enc w url parse (get url (sentHeaders headers st.etag) (.int 5))) :
    ResSim enc (httpLoad w).1 (Src.http_load url headers vs imp get parse validate detect st).2
    ∧ StSim enc (httpLoad w).2 (Src.http_load url headers vs imp get parse validate detect st).1.etag
        (Src.http_load url headers vs imp get parse validate detect st).1.policy_cache := by
  rcases hs with ⟨hse, hsc⟩
  generalize hgq : get url (sentHeaders headers st.etag) (.int 5) = g at hA
  cases hA with
  | transportFault c e hf hc =>
    rw [http_load_transport_fails url headers vs imp get parse validate detect st u hi e hgq]
    simp [httpLoad, hf, ResSim, StSim, hc, hse, hsc]
  | statusFault c r e hf h304 hh hr hc =>
    rw [http_load_status_raises url headers vs imp get parse validate detect st u hi r hgq h304 e hr hh]
    simp [httpLoad, hf, ResSim, StSim, hc, hse, hsc]
  | notFound r e hf hsv h304 hh hr hc =>
    rw [http_load_status_raises url headers vs imp get parse validate detect st u hi r hgq h304 e hr hh]
    simp [httpLoad, hf, hsv, ResSim, StSim, hc, hse, hsc]
  | notModified b r hf hsv hnm h304 =>
    rw [http_load_not_modified url headers vs imp get parse validate detect st u hi r hgq h304]
    simp only [httpLoad, hf, hsv, hnm, if_true]
    cases hcd : w.cachedDoc with
    | none => simp_all [ResSim, StSim, PyVal.isNone]
    | some d =>
      have := hdict d
      cases hed : enc d <;> simp_all [ResSim, StSim, PyVal.isNone, PyVal.isDict]
  | ok b r hf hsv hnm h304 hr hE htag hD =>
    have key := http_load_ok_path url headers vs imp get parse validate detect st enc b hdict hvs u hi r hgq h304 hr hE hD
    have ht := newEtag_model w b r htag
    rw [hse] at key
    rw [ht] at key
    simp only [httpLoad, hf, hsv, hnm]
    generalize Src.http_load url headers vs imp get parse validate detect st = res at key ⊢
    rcases res with ⟨s, (e | v)⟩
    · obtain ⟨hv, hc, rfl⟩ := key.2 e rfl
      simp [hv, ResSim, StSim, hc, hsc]
    · obtain ⟨hv, rfl, rfl⟩ := key.1 v rfl
      simp [hv, ResSim, StSim]

end

#print axioms http_load_eq
#print axioms http_load_ok_path
#print axioms http_etag_eq
#print axioms http_etag_model
#print axioms http_init_eq
#print axioms http_load_failure_keeps_cache
#print axioms http_load_etag_after
#print axioms http_load_import_fails
#print axioms http_load_transport_fails
#print axioms http_load_status_raises
#print axioms http_load_not_modified
#print axioms http_load_request
#print axioms http_request_inm_model
#print axioms http_load_parser_hints
#print axioms http_load_parser_filename
#print axioms http_load_validates_before_caching
end Rbacx.Translated
