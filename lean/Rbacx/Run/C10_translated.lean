import Rbacx.Generated
import Rbacx.Proofs.ReloaderTranslated
import Rbacx.Properties.C10
/-!
  Per-run obligation C10 — the TRANSLATED source of `HotReloader.check_and_reload_async` / `_register_error`
  (`Rbacx.Generated.Src.reloader_check`, `Src.reloader_register_error`: harness/pytolean_state.py applied to policy/loader.py as it is
  NOW) computes exactly the hand-written model `Rbacx.Reloader.check` / `registerError` (Model/Reloader.lean) that the theorems
  `Rbacx.C10.*` are about.

  For EVERY number reading `N` over integers of microseconds (`UsReading N`: `+ min max <` exact, `0.2` = 200 000 µs, `· * 2.0`
  doubles, every other product arbitrary), configuration, clock reading `now`, draw `u`, ratio, `force`, outcome of `etag()` (any
  returned value / any raised class), outcome of `load()`, prior calls `tr`, and every field record `st` that represents a model
  state `s` (`ReloaderSim s st`: `_last_etag` is the str / None of `s.lastEtag`, `_suppress_until`, `_backoff` are `s`'s, `_last_error is not
  None` iff `s.lastErrorSet`; `_last_reload_at` arbitrary), provided `guard.set_policy` returns (Guard.set_policy wraps everything it
  does — the model's `publish` assumes the same):
    * the fields afterwards represent the model's new state, the result is the model's result,
    * the collaborator calls made are exactly `etag()` iff `callsEtag`, then `load()` iff `callsLoad`, then `set_policy(d)` iff that
      `load()` returned `d` — in this order, appended to `tr`,
    * the model's engine fields / counters are what these calls do to them (`reloaderApplyCalls`),
    * `_last_reload_at` is `now` after a True check and untouched otherwise.
  When `set_policy` raises (outside the model), the check still returns False after registering the error
  (`reloader_check_set_policy_raises`).
-/
open Rbacx Rbacx.Generated Rbacx.Reloader Rbacx.PyR
set_option linter.unusedSimpArgs false

namespace Rbacx.Translated

/-- the field record `st` represents the model state `s` -/
structure ReloaderSim (s : RState) (st : Src.reloader_State Int) : Prop where
  etag : st.last_etag = tagVal s.lastEtag
  until_ : st.suppress_until = s.suppressUntil
  backoff : st.backoff = s.backoff
  err : st.last_error.isSome = s.lastErrorSet

/-- what collaborator calls do to the engine fields and the counters of the model state -/
def reloaderApplyCall (s : RState) (c : Call Doc) : RState :=
  if c.callee = "self.source.etag" then { s with etagCalls := s.etagCalls + 1 }
  else if c.callee = "self.source.load" then { s with loads := s.loads + 1 }
  else match c.args with
    | [.opaque d] => { s with enginePolicy := d, cacheEpoch := s.cacheEpoch + 1 }
    | _ => s

def reloaderApplyCalls (s : RState) (cs : List (Call Doc)) : RState := cs.foldl reloaderApplyCall s

/-- `_register_error` = `registerError` -/
theorem reloader_register_error (N : Num Int) (hN : UsReading N) (cfg : Cfg) (ratio u now : Int) (s : RState)
    (st : Src.reloader_State Int) (hs : ReloaderSim s st) (tr : List (Call Doc)) (cls level msg : String) :
    let r := Src.reloader_register_error N cfg.backoffMin cfg.backoffMax ratio u st tr now cls level msg
    ReloaderSim (registerError cfg now (jitOf N ratio u) s) r.st ∧ r.calls = tr ∧ r.out = .returned .none ∧
      r.st.last_error = some cls ∧ r.st.last_reload_at = st.last_reload_at ∧ r.st.last_etag = st.last_etag := by
  obtain ⟨h1, h2, h3, h4⟩ := hs
  simp only [Src.reloader_register_error, registerError, nextBackoff, jitOf, hN.add, hN.min, hN.max, hN.lit_floor, hN.double, h3]
  exact ⟨⟨h1, rfl, rfl, rfl⟩, trivial, trivial, trivial, trivial, trivial⟩

/-- `now < self._suppress_until and not force` is the model's `suppressed` -/
theorem reloader_suppressed (N : Num Int) (hN : UsReading N) (now : Int) (s : RState) (st : Src.reloader_State Int) (hs : ReloaderSim s st) (force : Bool) :
    (N.lt now st.suppress_until && !force) = suppressed force now s := by
  simp [hN.lt, hs.until_, suppressed]

theorem reloaderSim_iff (s : RState) (st : Src.reloader_State Int) :
    ReloaderSim s st ↔ (st.last_etag = tagVal s.lastEtag ∧ st.suppress_until = s.suppressUntil ∧ st.backoff = s.backoff ∧
      st.last_error.isSome = s.lastErrorSet) :=
  ⟨fun h => ⟨h.1, h.2, h.3, h.4⟩, fun ⟨a, b, c, d⟩ => ⟨a, b, c, d⟩⟩

/-- **`check_and_reload_async` = `check`**: the fields afterwards represent the model's new state, the result is the model's, the
    collaborator calls are exactly those the model predicts (`callsEtag` / `callsLoad` / the publish), in order, and `_last_reload_at`
    is `now` exactly after a True check.  `set_policy` returns (see `reloader_check_set_policy_raises` for the other case). -/
theorem reloader_check (N : Num Int) (hN : UsReading N) (cfg : Cfg) (ratio u now : Int) (force : Bool)
    (eo : Except String PyVal) (lo : Except String Doc) (s : RState) (st : Src.reloader_State Int) (hs : ReloaderSim s st)
    (tr : List (Call Doc)) :
    let r := Src.reloader_check N cfg.backoffMin cfg.backoffMax ratio now u eo lo (.ok ()) st tr force
    let m := check cfg force now (jitOf N ratio u) (etagRes eo) (loadRes lo) s
    ReloaderSim m.1 r.st ∧ r.out = outOf m.2 ∧
      r.calls = tr ++ callsOf force now (etagRes eo) (loadRes lo) s ∧
      r.st.last_reload_at = (if m.2 = .returned true then some now else st.last_reload_at) := by
  have hlt := reloader_suppressed N hN now s st hs force
  obtain ⟨h1, h2, h3, h4⟩ := hs
  simp only [Src.reloader_check, Src.reloader_register_error, hlt, isStr_ite, h1, eq_tagVal, isNotNone_tagVal, hN.add, hN.min, hN.max,
    hN.lit_floor, hN.double, h3]
  cases hsup : suppressed force now s
  · cases force
    · cases eo with
      | error c =>
        cases lo <;>
        simp [check, hsup, afterEtag, afterLoad, handle_out, registerError, publish, nextBackoff, jitOf, callsOf, callsEtag, callsLoad,
          etagRes, loadRes, forcedTag, outOf, reloaderSim_iff, h1, h2, h3, h4, cEtag, cLoad, cSet, tagVal]
      | ok v =>
        cases v with
        | str t =>
          by_cases ht : s.lastEtag = some t
          · cases lo <;>
            simp [check, hsup, afterEtag, afterLoad, handle_out, registerError, publish, nextBackoff, jitOf, callsOf, callsEtag, callsLoad,
            etagRes, loadRes, forcedTag, outOf, reloaderSim_iff, h1, h2, h3, h4, cEtag, cLoad, cSet, EtagObs.toOpt, obsOfVal, ht]
          · have ht' : ¬ (some t = s.lastEtag) := fun h => ht h.symm
            cases lo <;>
            simp [check, hsup, afterEtag, afterLoad, handle_out, registerError, publish, nextBackoff, jitOf, callsOf, callsEtag, callsLoad,
            etagRes, loadRes, forcedTag, outOf, reloaderSim_iff, h1, h2, h3, h4, cEtag, cLoad, cSet, EtagObs.toOpt, obsOfVal, ht, ht']
        | _ =>
          cases lo <;>
          simp [check, hsup, afterEtag, afterLoad, handle_out, registerError, publish, nextBackoff, jitOf, callsOf, callsEtag, callsLoad,
            etagRes, loadRes, forcedTag, outOf, reloaderSim_iff, h1, h2, h3, h4, cEtag, cLoad, cSet, EtagObs.toOpt, obsOfVal]
    · cases eo <;> cases lo <;>
        simp [check, hsup, afterEtag, afterLoad, handle_out, registerError, publish, nextBackoff, jitOf, callsOf, callsEtag, callsLoad,
          etagRes, loadRes, forcedTag, outOf, reloaderSim_iff, h1, h2, h3, h4, cEtag, cLoad, cSet, tagVal]
  · simp [check, hsup, callsOf, callsEtag, callsLoad, outOf, h1, h2, h3, h4, reloaderSim_iff]

/-- `guard.set_policy` RAISING (outside the model, whose `publish` cannot fail): for the reloader's fields and its result this is the
    same as `load()` raising that class — the error is registered, the check returns False, `_last_etag` / `_last_reload_at` stay —
    except that `set_policy(d)` HAS been called (what the guard did with `d` before raising is the guard's business). -/
theorem reloader_check_set_policy_raises (N : Num Int) (hN : UsReading N) (cfg : Cfg) (ratio u now : Int) (force : Bool)
    (eo : Except String PyVal) (d : Doc) (c : String) (s : RState) (st : Src.reloader_State Int) (hs : ReloaderSim s st)
    (tr : List (Call Doc)) :
    let r := Src.reloader_check N cfg.backoffMin cfg.backoffMax ratio now u eo (.ok d) (.error c) st tr force
    let m := check cfg force now (jitOf N ratio u) (etagRes eo) (.raise (excOf c)) s
    ReloaderSim m.1 r.st ∧ r.out = outOf m.2 ∧ r.out = .returned (.bool false) ∧
      r.calls = tr ++ callsOf force now (etagRes eo) (.ok d) s ∧ r.st.last_reload_at = st.last_reload_at := by
  have hlt := reloader_suppressed N hN now s st hs force
  obtain ⟨h1, h2, h3, h4⟩ := hs
  simp only [Src.reloader_check, Src.reloader_register_error, hlt, isStr_ite, h1, eq_tagVal, isNotNone_tagVal, hN.add, hN.min, hN.max,
    hN.lit_floor, hN.double, h3]
  cases hsup : suppressed force now s
  · cases force
    · cases eo with
      | error c' =>
        simp [check, hsup, afterEtag, afterLoad, handle_out, registerError, publish, nextBackoff, jitOf, callsOf, callsEtag, callsLoad,
            etagRes, loadRes, forcedTag, outOf, reloaderSim_iff, h1, h2, h3, h4, cEtag, cLoad, cSet, tagVal, EtagObs.toOpt, obsOfVal]
      | ok v =>
        cases v with
        | str t =>
          by_cases ht : s.lastEtag = some t
          · simp [check, hsup, afterEtag, afterLoad, handle_out, registerError, publish, nextBackoff, jitOf, callsOf, callsEtag, callsLoad,
            etagRes, loadRes, forcedTag, outOf, reloaderSim_iff, h1, h2, h3, h4, cEtag, cLoad, cSet, tagVal, EtagObs.toOpt, obsOfVal, ht]
          · have ht' : ¬ (some t = s.lastEtag) := fun h => ht h.symm
            simp [check, hsup, afterEtag, afterLoad, handle_out, registerError, publish, nextBackoff, jitOf, callsOf, callsEtag, callsLoad,
            etagRes, loadRes, forcedTag, outOf, reloaderSim_iff, h1, h2, h3, h4, cEtag, cLoad, cSet, tagVal, EtagObs.toOpt, obsOfVal, ht, ht']
        | _ =>
          simp [check, hsup, afterEtag, afterLoad, handle_out, registerError, publish, nextBackoff, jitOf, callsOf, callsEtag, callsLoad,
            etagRes, loadRes, forcedTag, outOf, reloaderSim_iff, h1, h2, h3, h4, cEtag, cLoad, cSet, tagVal, EtagObs.toOpt, obsOfVal]
    · cases eo <;>
        simp [check, hsup, afterEtag, afterLoad, handle_out, registerError, publish, nextBackoff, jitOf, callsOf, callsEtag, callsLoad,
            etagRes, loadRes, forcedTag, outOf, reloaderSim_iff, h1, h2, h3, h4, cEtag, cLoad, cSet, tagVal, EtagObs.toOpt, obsOfVal]
  · simp [check, hsup, callsOf, callsEtag, callsLoad, outOf, h1, h2, h3, h4, reloaderSim_iff]

/-- when `load()` raises, `set_policy` is not reached: its outcome is irrelevant -/
theorem reloader_check_set_policy_unreached (N : Num Int) (cfg : Cfg) (ratio u now : Int) (force : Bool)
    (eo : Except String PyVal) (c : String) (sp : Except String Unit) (st : Src.reloader_State Int) (tr : List (Call Doc)) :
    Src.reloader_check N cfg.backoffMin cfg.backoffMax ratio now u eo (.error c) sp st tr force =
      Src.reloader_check N cfg.backoffMin cfg.backoffMax ratio now u eo (.error c) (.ok ()) st tr force := by
  simp only [Src.reloader_check]

/-- the engine fields and the counters of the model's new state are what the predicted collaborator calls do to the old one:
    `etag()` counts, `load()` counts, `set_policy(d)` installs `d` and clears the cache once -/
theorem reloader_calls_applied (cfg : Cfg) (force : Bool) (now : Int) (jit : Int → Int) (e : Reloader.Res EtagObs) (l : Reloader.Res Doc)
    (s : RState) :
    let m := check cfg force now jit e l s
    let a := reloaderApplyCalls s (callsOf force now e l s)
    m.1.enginePolicy = a.enginePolicy ∧ m.1.cacheEpoch = a.cacheEpoch ∧ m.1.loads = a.loads ∧ m.1.etagCalls = a.etagCalls := by
  rcases check_cases cfg force now jit e l s with ⟨hs, h⟩ | ⟨hs, hl, h⟩ | ⟨hs, hl, h⟩ | ⟨hs, hl, ⟨c, hc⟩, h⟩ | ⟨hs, hl, d, etag, hd, h⟩
  · simp [h, callsOf, callsEtag, callsLoad, hs, reloaderApplyCalls]
  · simp [h, callsOf, callsEtag, hl, hs, reloaderApplyCalls, reloaderApplyCall, cEtag]
  · simp [h, callsOf, callsEtag, hl, hs, reloaderApplyCalls, reloaderApplyCall, cEtag, registerError]
  · subst hc; simp [h, callsOf, callsEtag, hl, hs, reloaderApplyCalls, reloaderApplyCall, cEtag, cLoad, registerError]
  · subst hd; simp [h, callsOf, callsEtag, hl, hs, reloaderApplyCalls, reloaderApplyCall, cEtag, cLoad, cSet, publish]

/-- **the state-creating statements of `__init__` = `init`**: whatever the fields were, afterwards they represent the model's
    initial state for the priming the constructor did (`primeOf`: none with `initial_load`, none without a sync `etag`, else the
    outcome of the one sync `etag()` call — a str is recorded, anything else and every exception give None); `etag()` has been
    called exactly when the model counts it -/
theorem reloader_init (N : Num Int) (hN : UsReading N) (cfg : Cfg) (initialLoad syncEtag : Bool) (eo : Except String PyVal)
    (st0 : Src.reloader_State Int) (tr : List (Call Doc)) (policy0 : Doc) :
    let r := Src.reloader_init N cfg.backoffMin initialLoad syncEtag eo st0 tr
    let p := primeOf initialLoad syncEtag eo
    ReloaderSim (init cfg p policy0) r.st ∧ r.out = .returned .none ∧
      r.calls = tr ++ (match p with | .called _ => [cEtag] | .skipped => []) ∧
      (init cfg p policy0).etagCalls = (match p with | .called _ => 1 | .skipped => 0) ∧
      r.st.last_reload_at = none ∧ r.st.last_error = none := by
  simp only [Src.reloader_init, hN.lit_zero, isStr_ite]
  cases initialLoad <;> cases syncEtag <;> cases eo <;>
    simp [primeOf, init, Prime.tag, etagRes, reloaderSim_iff, tagVal, cEtag]
  rename_i v
  cases v <;> simp [obsOfVal, EtagObs.toOpt]

/-! ### histories of non-overlapping translated checks -/

/-- an event of a history of the translated reloader: the clock moves on, or one whole check with its draw and the outcomes of its
    collaborator calls (`set_policy` returns) -/
inductive TEvent where
  | advance (dt : Nat)
  | check (force : Bool) (u : Int) (eo : Except String PyVal) (lo : Except String Doc)

/-- the model event a translated event is -/
def TEvent.toModel (N : Num Int) (ratio : Int) : TEvent → Event
  | .advance dt => .advance dt
  | .check force u eo lo => .check force (jitOf N ratio u) (etagRes eo) (loadRes lo)

structure THist where
  now : Int
  st : Src.reloader_State Int
  tr : List (Call Doc)

/-- run the TRANSLATED `check_and_reload_async` over a history, every check on the fields and the trace the previous one left -/
def trun (N : Num Int) (cfg : Cfg) (ratio : Int) : THist → List TEvent → THist
  | h, [] => h
  | h, .advance dt :: evs => trun N cfg ratio { h with now := h.now + dt } evs
  | h, .check force u eo lo :: evs =>
    let r := Src.reloader_check N cfg.backoffMin cfg.backoffMax ratio h.now u eo lo (.ok ()) h.st h.tr force
    trun N cfg ratio { h with st := r.st, tr := r.calls } evs

/-- **histories**: running the translated method over any history of clock advances and checks keeps the fields in step with the
    model's `run`, and the collaborator calls made are exactly the ones the model predicts, check by check -/
theorem reloader_history (N : Num Int) (hN : UsReading N) (cfg : Cfg) (ratio : Int) (evs : List TEvent) :
    ∀ (h : THist) (s : RState), ReloaderSim s h.st →
      let m := run cfg ⟨h.now, s⟩ (evs.map (TEvent.toModel N ratio))
      let t := trun N cfg ratio h evs
      ReloaderSim m.rs t.st ∧ t.now = m.now ∧
        t.tr = h.tr ++ callsAlong cfg ⟨h.now, s⟩ (evs.map (TEvent.toModel N ratio)) := by
  induction evs with
  | nil => intro h s hs; exact ⟨hs, rfl, by simp [trun, callsAlong]⟩
  | cons ev evs ih =>
    intro h s hs
    cases ev with
    | advance dt =>
      have := ih { h with now := h.now + dt } s hs
      simpa [trun, run, stepEvent, TEvent.toModel, callsAlong] using this
    | check force u eo lo =>
      obtain ⟨hsim, _, hcalls, _⟩ := reloader_check N hN cfg ratio u h.now force eo lo s h.st hs h.tr
      have := ih { h with st := (Src.reloader_check N cfg.backoffMin cfg.backoffMax ratio h.now u eo lo (.ok ()) h.st h.tr force).st,
                          tr := (Src.reloader_check N cfg.backoffMin cfg.backoffMax ratio h.now u eo lo (.ok ()) h.st h.tr force).calls }
        (check cfg force h.now (jitOf N ratio u) (etagRes eo) (loadRes lo) s).1 hsim
      obtain ⟨h1, h2, h3⟩ := this
      refine ⟨by simpa [trun, run, stepEvent, TEvent.toModel] using h1, by simpa [trun, run, stepEvent, TEvent.toModel] using h2, ?_⟩
      simp only [trun, List.map_cons, TEvent.toModel, callsAlong, stepEvent]
      rw [h3, hcalls, List.append_assoc]

/-- along every history the documents the translated reloader hands to `Guard.set_policy` are exactly the documents its own successful
    `load()`s returned, in order; the model's active policy is the last of them (the initial one if there is none) — cf.
    `c10_policy_is_loaded`, `c10_sequential_latest` -/
theorem reloader_history_installs (N : Num Int) (hN : UsReading N) (cfg : Cfg) (ratio : Int) (evs : List TEvent)
    (h : THist) (s : RState) (hs : ReloaderSim s h.st) :
    let m := run cfg ⟨h.now, s⟩ (evs.map (TEvent.toModel N ratio))
    let t := trun N cfg ratio h evs
    ∃ new, t.tr = h.tr ++ new ∧ new.filterMap setArg = loadedDocs cfg ⟨h.now, s⟩ (evs.map (TEvent.toModel N ratio)) ∧
      m.rs.enginePolicy = ((new.filterMap setArg).getLast?).getD s.enginePolicy := by
  intro m t
  obtain ⟨_, _, h3⟩ := reloader_history N hN cfg ratio evs h s hs
  refine ⟨_, h3, setArg_callsAlong cfg _ _, ?_⟩
  rw [setArg_callsAlong]
  exact run_policy cfg _ ⟨h.now, s⟩

/-! ### the C10 clauses, re-derived for the translated source -/

/-- whatever the source and the guard do — every returned value, every raised class, `set_policy` raising included — the translated
    `check_and_reload_async` returns a bool (cf. `c10_never_raises`) -/
theorem reloader_never_raises (N : Num Int) (hN : UsReading N) (cfg : Cfg) (ratio u now : Int) (force : Bool)
    (eo : Except String PyVal) (lo : Except String Doc) (sp : Except String Unit) (s : RState) (st : Src.reloader_State Int)
    (hs : ReloaderSim s st) (tr : List (Call Doc)) :
    ∃ b, (Src.reloader_check N cfg.backoffMin cfg.backoffMax ratio now u eo lo sp st tr force).out = .returned (.bool b) := by
  have main : ∀ lo, ∃ b, (Src.reloader_check N cfg.backoffMin cfg.backoffMax ratio now u eo lo (.ok ()) st tr force).out =
      .returned (.bool b) := by
    intro lo
    obtain ⟨b, hb⟩ := check_returns_bool cfg force now (jitOf N ratio u) (etagRes eo) (loadRes lo) s
    exact ⟨b, by rw [(reloader_check N hN cfg ratio u now force eo lo s st hs tr).2.1, hb]; rfl⟩
  cases lo with
  | error c => rw [reloader_check_set_policy_unreached]; exact main _
  | ok d =>
    cases sp with
    | ok _ => exact main _
    | error c => exact ⟨false, (reloader_check_set_policy_raises N hN cfg ratio u now force eo d c s st hs tr).2.2.1⟩

/-- a translated check that returns False has not called `set_policy` (cf. `c10_false_is_inert`: the engine's policy and cache are
    touched by `Guard.set_policy` only) -/
theorem reloader_false_is_inert (N : Num Int) (hN : UsReading N) (cfg : Cfg) (ratio u now : Int) (force : Bool)
    (eo : Except String PyVal) (lo : Except String Doc) (s : RState) (st : Src.reloader_State Int) (hs : ReloaderSim s st)
    (tr : List (Call Doc)) :
    let r := Src.reloader_check N cfg.backoffMin cfg.backoffMax ratio now u eo lo (.ok ()) st tr force
    r.out = .returned (.bool false) →
      ∃ new, r.calls = tr ++ new ∧ (∀ c ∈ new, c.callee ≠ "self.guard.set_policy") ∧ r.st.last_etag = st.last_etag := by
  intro r hf
  obtain ⟨hsim, hout, hcalls, _⟩ := reloader_check N hN cfg ratio u now force eo lo s st hs tr
  refine ⟨_, hcalls, ?_, ?_⟩
  · rcases check_cases cfg force now (jitOf N ratio u) (etagRes eo) (loadRes lo) s with
      ⟨h0, h⟩ | ⟨h0, hl, h⟩ | ⟨h0, hl, h⟩ | ⟨h0, hl, ⟨c, hc⟩, h⟩ | ⟨h0, hl, d, etag, hd, h⟩
    · simp [callsOf, callsEtag, callsLoad, h0]
    · simp [callsOf, callsEtag, hl, h0, cEtag]
    · simp [callsOf, callsEtag, hl, h0, cEtag]
    · simp [callsOf, callsEtag, hl, h0, hc, cEtag, cLoad]
    · exfalso
      have : r.out = .returned (.bool true) := by rw [hout, h]; rfl
      rw [hf] at this
      cases this
  · rw [hsim.etag, hs.etag]
    rcases check_cases cfg force now (jitOf N ratio u) (etagRes eo) (loadRes lo) s with
      ⟨h0, h⟩ | ⟨h0, hl, h⟩ | ⟨h0, hl, h⟩ | ⟨h0, hl, ⟨c, hc⟩, h⟩ | ⟨h0, hl, d, etag, hd, h⟩
    · rw [h]
    · rw [h]
    · rw [h]; rfl
    · rw [h]; rfl
    · exfalso
      have : r.out = .returned (.bool true) := by rw [hout, h]; rfl
      rw [hf] at this
      cases this

/-- a translated check that returns True has called `etag()`, `load()` and `set_policy(d)` — in this order, nothing else — with `d` the
    very document its own `load()` returned, and has recorded the tag it read BEFORE loading (cf. `c10_installed_by_true_check`) -/
theorem reloader_true_installs (N : Num Int) (hN : UsReading N) (cfg : Cfg) (ratio u now : Int) (force : Bool)
    (eo : Except String PyVal) (lo : Except String Doc) (s : RState) (st : Src.reloader_State Int) (hs : ReloaderSim s st)
    (tr : List (Call Doc)) :
    let r := Src.reloader_check N cfg.backoffMin cfg.backoffMax ratio now u eo lo (.ok ()) st tr force
    r.out = .returned (.bool true) →
      ∃ d, lo = .ok d ∧ r.calls = tr ++ [cEtag, cLoad, cSet d] ∧ r.st.last_reload_at = some now ∧ r.st.last_error = none := by
  intro r ht
  obtain ⟨hsim, hout, hcalls, hlra⟩ := reloader_check N hN cfg ratio u now force eo lo s st hs tr
  rcases check_cases cfg force now (jitOf N ratio u) (etagRes eo) (loadRes lo) s with
    ⟨h0, h⟩ | ⟨h0, hl, h⟩ | ⟨h0, hl, h⟩ | ⟨h0, hl, ⟨c, hc⟩, h⟩ | ⟨h0, hl, d, etag, hd, h⟩
  all_goals (try (exfalso; have hx : r.out = .returned (.bool false) := (by rw [hout, h]; rfl); rw [ht] at hx; cases hx))
  cases lo with
  | error c => simp [loadRes] at hd
  | ok d' =>
    have : d' = d := by simpa [loadRes] using hd
    subst this
    refine ⟨d', rfl, ?_, ?_, ?_⟩
    · rw [hcalls]; simp [callsOf, callsEtag, hl, h0, loadRes]
    · rw [hlra, h]; simp
    · have := hsim.err
      rw [h] at this
      simpa [publish] using this

/-- the suppression window the translated check leaves is the old one or within the bound (cf. `c10_backoff_bounded_step`);
    `JitOk` for `N`'s product: the draw is at most 1 -/
theorem reloader_backoff_bounded (N : Num Int) (hN : UsReading N) (cfg : Cfg) (hmin : 0 ≤ cfg.backoffMin) (hmax : 0 ≤ cfg.backoffMax)
    (rN rD : Int) (hrD : 0 < rD) (hrN : 0 ≤ rN) (ratio u now : Int) (hj : Rbacx.C10.JitOk rN rD (jitOf N ratio u)) (force : Bool)
    (eo : Except String PyVal) (lo : Except String Doc) (s : RState) (st : Src.reloader_State Int) (hs : ReloaderSim s st)
    (tr : List (Call Doc)) :
    let r := Src.reloader_check N cfg.backoffMin cfg.backoffMax ratio now u eo lo (.ok ()) st tr force
    r.st.suppress_until = st.suppress_until ∨ Rbacx.C10.WindowOk cfg rN rD now r.st.suppress_until := by
  intro r
  obtain ⟨hsim, _, _, _⟩ := reloader_check N hN cfg ratio u now force eo lo s st hs tr
  rw [hsim.until_, hs.until_]
  exact Rbacx.C10.c10_backoff_bounded_step cfg hmin hmax rN rD hrD hrN force now _ hj _ _ s

/-- non-vacuity: the hypotheses are satisfiable (fixed-point µs arithmetic; the state the constructor leaves) -/
example : UsReading usFixed ∧ ReloaderSim (init ⟨500000, 2000000⟩ .skipped "init")
    { last_etag := .none, suppress_until := 0, backoff := 500000, last_reload_at := none, last_error := none } :=
  ⟨usFixed_reading, ⟨rfl, rfl, rfl, rfl⟩⟩

end Rbacx.Translated

#print axioms Rbacx.Translated.reloader_register_error
#print axioms Rbacx.Translated.reloader_check
#print axioms Rbacx.Translated.reloader_init
#print axioms Rbacx.Translated.reloader_history
#print axioms Rbacx.Translated.reloader_history_installs
#print axioms Rbacx.Translated.reloader_check_set_policy_raises
#print axioms Rbacx.Translated.reloader_check_set_policy_unreached
#print axioms Rbacx.Translated.reloader_calls_applied
#print axioms Rbacx.Translated.reloader_never_raises
#print axioms Rbacx.Translated.reloader_false_is_inert
#print axioms Rbacx.Translated.reloader_true_installs
#print axioms Rbacx.Translated.reloader_backoff_bounded
