import Rbacx.Generated
import Rbacx.Proofs.SinksTranslated
import Rbacx.Run.C01_translated
/-!
  Per-run obligation (C11): the SINK BLOCK of `Guard._evaluate_core_async` (core/engine.py) as it is written NOW — the statements from
  `if self.metrics is not None:` to `return d`.  harness/pytolean_sinks.py (plugin `extractors/src_translation_sinks.py`) translates them
  statement by statement into `Rbacx.Generated.Src.engine_sinks`, a function to a SINK-CALL TRACE (Model/PySinks.lean): the three sinks
  `getattr(self.metrics, "inc", None)`, `getattr(self.metrics, "observe", None)`, `getattr(self.logger_sink, "log", None)` are PARAMETERS
  (absent, or a function in one of the three spellings the ports allow — `def`, `async def`, `def` returning an awaitable — whose work
  returns / raises), the measured duration is an opaque value.  Since the repair of finding F21 every sink call is
  `await maybe_await(x(args…))` (`PyS.callMaybe`); for the text before the repair (`iscoroutinefunction` dispatch, `PyS.call`) the first
  theorem is FALSE for a `def` returning an awaitable (`PyS.f21_old_shape_drops_awaitable`) and this file does not check.

  Proved here, about the TRANSLATED SOURCE, for EVERY Decision value `d`, env, duration, value of `self.metrics` / `self.logger_sink`,
  and EVERY sink (each of the three: absent, or any spelling, its work returning or raising at call or at await time — independently):

  * `engine_sinks_trace` — the sinks whose WORK RUNS are exactly those of `expectedCalls` (inc, observe, log; each iff its object is
    configured and has the attribute; once; whatever the spelling: an awaitable result is awaited), with the arguments `("rbacx_decisions_total", labels)`,
    `("rbacx_decision_seconds", dur, labels)`, `(payload,)` where `labels` / `payload` are `Src.engine_metric_labels d` /
    `Src.engine_audit_payload env d` (the statements C01_translated is about), and it ends `returned d`;
  * (i) `sinks_cannot_change_decision` — the returned value is the Decision handed in, whatever the sinks are and do;
  * (ii) `sinks_called_once_in_order` — with a metrics object that has `inc` and `observe` and a logger sink that has `log`, each in ANY
    spelling: the work of exactly the three sinks inc, observe, log runs, once each, in this order, whichever of them raise (a raising `inc` does not prevent `observe`, a raising metrics
    sink does not prevent the audit record); `sinks_counts`: in general at most one call per sink, none for an object that is `None`;
  * (iii) `sinks_agree_model` — hypotheses of `engine_gate_finish` (C01_translated): the calls (sink + arguments) the translated block makes
    on the Decision the translated gate returns are the events of the model's `finishDecision` through `encSinkCall`;
  * (iv) `sinks_nothing_propagates` — the block never ends `raised`.
-/
namespace Rbacx.Translated
open Rbacx Rbacx.Py Rbacx.PyS Rbacx.Generated PyVal

/-- **the translated sink block is its specification**, for every sink, every value of the two sink objects, every Decision, env and
    duration -/
theorem engine_sinks_trace (inc observe log : Sink) (dur m d l env : PyVal) :
    Src.engine_sinks inc observe log dur m d l env =
      ⟨expectedCalls inc observe log (!m.isNone) (!l.isNone) dur (Src.engine_metric_labels d) (Src.engine_audit_payload env d),
       .returned d⟩ := by
  unfold Src.engine_sinks Src.engine_metric_labels Src.engine_audit_payload
  simp only [guarded_call_maybe, isNotNone_truthy]
  cases m.isNone <;> cases l.isNone <;>
    simp [expectedCalls, PyS.seq, PyS.next, PyS.ret]

/-- **(i) C11, about the source text: sinks cannot change the decision** — the block returns the Decision it was handed, unchanged,
    whatever the sinks are (absent, sync, async) and whatever they do (return, raise) -/
theorem sinks_cannot_change_decision (inc observe log : Sink) (dur m d l env : PyVal) :
    (Src.engine_sinks inc observe log dur m d l env).ending = .returned d := by
  rw [engine_sinks_trace]

/-- **(iv) nothing propagates**: the block never ends with an exception -/
theorem sinks_nothing_propagates (inc observe log : Sink) (dur m d l env : PyVal) :
    ∀ (_ : (Src.engine_sinks inc observe log dur m d l env).ending = .raised), False := by
  rw [engine_sinks_trace]; intro h; cases h

/-- **(ii) exactly one `inc`, one `observe`, one `log`, in this order** when the metrics object (with both attributes) and the logger
    sink (with `log`) are configured — for every combination of the three SPELLINGS (`def`, `async def`, `def` returning an awaitable)
    and of returning / RAISING work: every sink's work runs exactly once (an awaitable result is awaited), `observe` happens although
    `inc` raised — at call time or at await time —, the audit record is written although a metrics call raised -/
theorem sinks_called_once_in_order (si so sl : Spelling) (ri ro rl : Bool) (dur m d l env : PyVal)
    (hm : m.isNone = false) (hl : l.isNone = false) :
    (Src.engine_sinks (.fn si ri) (.fn so ro) (.fn sl rl) dur m d l env).calls =
      [⟨"self.metrics.inc", [.str "rbacx_decisions_total", Src.engine_metric_labels d]⟩,
       ⟨"self.metrics.observe", [.str "rbacx_decision_seconds", dur, Src.engine_metric_labels d]⟩,
       ⟨"self.logger_sink.log", [Src.engine_audit_payload env d]⟩] := by
  rw [engine_sinks_trace, hm, hl]
  rfl

/-- counted, in general: one call per sink that is there on an object that is configured, none otherwise — never two -/
theorem sinks_counts (inc observe log : Sink) (dur m d l env : PyVal) :
    ((Src.engine_sinks inc observe log dur m d l env).calls.filter (·.callee == "self.metrics.inc")).length
        = (if !m.isNone && inc.isNotNone then 1 else 0) ∧
    ((Src.engine_sinks inc observe log dur m d l env).calls.filter (·.callee == "self.metrics.observe")).length
        = (if !m.isNone && observe.isNotNone then 1 else 0) ∧
    ((Src.engine_sinks inc observe log dur m d l env).calls.filter (·.callee == "self.logger_sink.log")).length
        = (if !l.isNone && log.isNotNone then 1 else 0) := by
  rw [engine_sinks_trace]
  cases inc <;> cases observe <;> cases log <;> cases m.isNone <;> cases l.isNone <;> exact ⟨rfl, rfl, rfl⟩

/-- no metrics object and no logger sink: no call at all -/
theorem sinks_none_configured (inc observe log : Sink) (dur d env : PyVal) :
    (Src.engine_sinks inc observe log dur PyVal.none d PyVal.none env).calls = [] := by
  rw [engine_sinks_trace]; rfl

/-- **(iii) C11, agreement clause, about the translated source: the sink calls the block makes — which sink, which arguments, in which
    order — on the Decision the translated gate returns are exactly the events of the model's `finishDecision`** (`encSinkCall`: inc with
    `("rbacx_decisions_total", {"decision": effect})`, observe with `("rbacx_decision_seconds", dur, the same labels)`, log with the
    seven-key audit record).  Hypotheses: those of `engine_gate_finish`; `self.metrics` / `self.logger_sink` are `None` exactly when the
    model's configuration has no metrics / logger; the configured objects have their attributes (in any of the three spellings, their work returning or raising) -/
theorem sinks_agree_model (o : Oracle) (cfg : GuardCfg) (req : Request) (env : PyVal) (raw : Raw)
    (check : PyVal → PyVal → Option PyVal) (d ctx : PyVal) (h : Represents d raw)
    (hc : check d ctx = checkerOutcome o cfg req raw)
    (si so sl : Spelling) (ri ro rl : Bool) (dur m l : PyVal) (hm : m.isNone = !cfg.hasMetrics) (hl : l.isNone = !cfg.hasLogger) :
    (Src.engine_sinks (.fn si ri) (.fn so ro) (.fn sl rl) dur m (Src.engine_gate o check d ctx) l env).calls.map
        (fun c => (c.callee, c.args)) =
      (finishDecision o cfg req env raw).2.map (encSinkCall dur) := by
  rw [engine_sinks_trace, engine_gate_finish o cfg req env raw check d ctx h hc, finishDecision_events, events_as_calls,
    engine_metric_labels, engine_audit_payload, hm, hl]
  cases cfg.hasMetrics <;> cases cfg.hasLogger <;> rfl

/-- … and the Decision the block returns is the Decision of the model's `finishDecision` (same hypotheses, any sinks at all) -/
theorem sinks_return_model_decision (o : Oracle) (cfg : GuardCfg) (req : Request) (env : PyVal) (raw : Raw)
    (check : PyVal → PyVal → Option PyVal) (d ctx : PyVal) (h : Represents d raw)
    (hc : check d ctx = checkerOutcome o cfg req raw) (inc observe log : Sink) (dur m l : PyVal) :
    (Src.engine_sinks inc observe log dur m (Src.engine_gate o check d ctx) l env).ending =
      .returned (encDecision (finishDecision o cfg req env raw).1) := by
  rw [sinks_cannot_change_decision, engine_gate_finish o cfg req env raw check d ctx h hc]

end Rbacx.Translated

#print axioms Rbacx.Translated.engine_sinks_trace
#print axioms Rbacx.Translated.sinks_cannot_change_decision
#print axioms Rbacx.Translated.sinks_nothing_propagates
#print axioms Rbacx.Translated.sinks_called_once_in_order
#print axioms Rbacx.Translated.sinks_counts
#print axioms Rbacx.Translated.sinks_none_configured
#print axioms Rbacx.Translated.sinks_agree_model
#print axioms Rbacx.Translated.sinks_return_model_decision
