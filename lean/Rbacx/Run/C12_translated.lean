import Rbacx.Generated
import Rbacx.Proofs.RebacTranslated
import Rbacx.Properties.C12
/-!
  Per-run obligation: the LOCAL ReBAC CHECKER of rbacx/rebac/local.py as it is written NOW — the dataclasses, the in-memory store,
  `_split_ref` and every method of `LocalRelationshipChecker`, translated statement by statement into `Rbacx.Generated.Src.rebac_*` by
  the typed translator harness/pytolean_rebac.py (plugin `extractors/src_translation_rebac.py`, meanings `Model/PyRebac.lean`) —
  computes the hand-written model `Rbacx.Rebac.*` (Model/Rebac.lean), the functions the theorems `Rbacx.C12.*` are about.

  `check` is a `while queue:` loop: the translation runs it with a budget, `Src.rebac_Checker_check self clock s r o fuel : Option Bool`
  (`none` = the body would have to run more than `fuel` times); `clock i` is the i-th reading of `time.perf_counter_ns()` in the call.

  Proved here, for EVERY store content (`cfg.tuples`, loaded by `add` calls in that order: `storeOf`), rule map (`encRules cfg.rules`),
  caveat registry outcome table (`encReg cfg.reg`), `max_depth` / `max_nodes` / `deadline_ms` (any `Int`), clock and query:
  * FUEL SUFFICES and THE ANSWER IS THE MODEL'S (`check_eq`, `check_terminates`): every budget ≥ `fuelBound cfg` = 2 + max_nodes⁺ ·
    (sum over the configured rewrites of their width on a store of |tuples| tuples) gives `some (Rebac.check cfg (deadlineOfClock clock
    deadline_ms) q)`; no budget gives another answer (`check_any_fuel`); every adversarial deadline oracle of the model is the oracle of
    some clock (`every_oracle_is_a_clock`);
  * each helper equals its model counterpart: `split_ref_eq`, `store_direct_for_resource_eq`, `store_by_subject_eq`, `caveat_holds_eq`,
    `direct_allowed_eq`, `lookup_expr_eq`, `expand_eq`, `batch_check_eq` (the j-th `self.check` call of the batch is the parameter
    `chk j`, as in the model's `batchLoop`), `batch_check_model`; the constructor's `or {}` defaults (`checker_init_defaults`);
  * with the theorems of Properties/C12.lean, about the translated source: `check_sound`, `check_complete`, `check_limits_fail_closed`,
    `batch_eq_map`.

  Domain (stated by the types): subjects, relations, resources, caveat names and rule keys are `str`, limits are `int`, a rule value is
  a `This` / `ComputedUserset` / `TupleToUserset` instance, a list of rule values, or anything else (`Expr.other`); `pred(context)` of a
  registered predicate is an outcome (raises / truthy / falsy) — user code, external.  Values, not references: a store or rule map
  mutated during a call is not represented.
-/
namespace Rbacx.Translated
open Rbacx Rbacx.PyR Rbacx.Rebac Rbacx.Generated

/-! ### the dataclasses are the ones the encodings assume -/

/-- `RelTuple` of the source ↔ the model's -/
def ofM (t : RelTuple) : Src.rebac_RelTuple := { subject := t.subject, relation := t.relation, resource := t.resource, caveat := t.caveat }
def toM (t : Src.rebac_RelTuple) : RelTuple := { subject := t.subject, relation := t.relation, resource := t.resource, caveat := t.caveat }
theorem toM_ofM (t : RelTuple) : toM (ofM t) = t := rfl
theorem ofM_toM (t : Src.rebac_RelTuple) : ofM (toM t) = t := rfl

/-- `This()`, `ComputedUserset(relation)`, `TupleToUserset(tupleset, computed_userset)`: the classes and fields `encExpr` uses -/
theorem obj_classes : Src.rebac_obj_classes =
    [("This", []), ("ComputedUserset", ["relation"]), ("TupleToUserset", ["tupleset", "computed_userset"])] := rfl

/-! ### `_split_ref` -/

theorem split_ref_eq (ref : String) : Src.rebac_split_ref ref = splitRef ref := by
  unfold Src.rebac_split_ref splitRef
  rw [isIn_colon]
  by_cases h : hasColon ref = true
  · simp only [h, if_true]
    obtain ⟨h1, h2⟩ := partitionChar_colon ref h
    rw [h1, h2]
  · simp only [h, Bool.false_eq_true, if_false]

/-! ### the store -/

/-- the store after `add(t.subject, t.relation, t.resource, caveat=t.caveat)` for each tuple, in order -/
def storeOf (tuples : List RelTuple) : Src.rebac_Store :=
  tuples.foldl (fun s t => Src.rebac_Store_add s t.subject t.relation t.resource t.caveat) Src.rebac_Store_init

theorem foldl_add_by_res_rel (tuples : List RelTuple) (s : Src.rebac_Store) :
    (tuples.foldl (fun s t => Src.rebac_Store_add s t.subject t.relation t.resource t.caveat) s).by_res_rel =
      (tuples.map ofM).foldl (fun d t => Dict.setdefaultAppend d (t.resource, t.relation) t) s.by_res_rel := by
  induction tuples generalizing s with
  | nil => rfl
  | cons t ts ih => simp only [List.foldl_cons, List.map_cons, ih]; rfl

theorem foldl_add_by_subj_rel (tuples : List RelTuple) (s : Src.rebac_Store) :
    (tuples.foldl (fun s t => Src.rebac_Store_add s t.subject t.relation t.resource t.caveat) s).by_subj_rel =
      (tuples.map ofM).foldl (fun d t => Dict.setdefaultAppend d (t.subject, t.relation) t) s.by_subj_rel := by
  induction tuples generalizing s with
  | nil => rfl
  | cons t ts ih => simp only [List.foldl_cons, List.map_cons, ih]; rfl

/-- `store.direct_for_resource(relation, resource)`: the tuples with that resource and relation, in insertion order -/
theorem store_direct_for_resource_eq (tuples : List RelTuple) (relation resource : String) :
    Src.rebac_Store_direct_for_resource (storeOf tuples) relation resource = (directFor tuples relation resource).map ofM := by
  unfold Src.rebac_Store_direct_for_resource storeOf
  rw [foldl_add_by_res_rel, getD_index (fun t : Src.rebac_RelTuple => (t.resource, t.relation))]
  simp only [Src.rebac_Store_init, Dict.getD, Dict.get?, Dict.empty, List.lookup_nil, Option.getD_none, List.nil_append, directFor,
    List.filter_map]
  congr 1

/-- `store.by_subject(subject, relation)`: the tuples with that subject and relation, in insertion order -/
theorem store_by_subject_eq (tuples : List RelTuple) (subject relation : String) :
    Src.rebac_Store_by_subject (storeOf tuples) subject relation =
      (tuples.filter fun t => t.subject == subject && t.relation == relation).map ofM := by
  unfold Src.rebac_Store_by_subject storeOf
  rw [foldl_add_by_subj_rel, getD_index (fun t : Src.rebac_RelTuple => (t.subject, t.relation))]
  simp only [Src.rebac_Store_init, Dict.getD, Dict.get?, Dict.empty, List.lookup_nil, Option.getD_none, List.nil_append,
    List.filter_map]
  congr 1

/-! ### the checker object -/

/-- `LocalRelationshipChecker(store, rules=…, caveat_registry=…, max_depth=…, max_nodes=…, deadline_ms=…)` on a loaded store -/
def encChecker (cfg : Config) (deadlineMs : Int) : Src.rebac_Checker :=
  Src.rebac_Checker_init (storeOf cfg.tuples) (some (encRules cfg.rules)) (some (encReg cfg.reg)) cfg.maxDepth cfg.maxNodes deadlineMs

theorem encChecker_eq (cfg : Config) (dms : Int) : encChecker cfg dms =
    { store := storeOf cfg.tuples, rules := encRules cfg.rules, caveats := encReg cfg.reg, max_depth := cfg.maxDepth,
      max_nodes := cfg.maxNodes, deadline_ms := dms } := by
  unfold encChecker Src.rebac_Checker_init
  rw [orEmpty_some_dict, orEmpty_some_reg]

/-- `rules=None` / `caveat_registry=None`: no rewrites, no registered caveat -/
theorem checker_init_defaults (store : Src.rebac_Store) (d n ms : Int) :
    Src.rebac_Checker_init store none none d n ms =
      { store := store, rules := Dict.empty, caveats := fun _ => none, max_depth := d, max_nodes := n, deadline_ms := ms } := rfl

/-! ### `_caveat_holds`, `_direct_allowed` -/

theorem caveat_holds_eq (cfg : Config) (dms : Int) (t : RelTuple) :
    Src.rebac_Checker_caveat_holds (encChecker cfg dms) (ofM t) = caveatHolds cfg.reg t := by
  rw [encChecker_eq]
  unfold Src.rebac_Checker_caveat_holds caveatHolds
  obtain ⟨s, r, o, c⟩ := t
  cases c with
  | none => rfl
  | some c =>
    have hreg : encReg cfg.reg c = (cfg.reg c).map fun o => match o with | .raises => CallOut.raises | .val b => CallOut.returns b := rfl
    simp only [ofM, isNone_option, Option.isNone_some, Bool.false_eq_true, if_false, get_registry_some]
    cases h : cfg.reg c with
    | none => rw [h] at hreg; simp [hreg]
    | some out => rw [h] at hreg; cases out <;> simp [hreg, callBool]

theorem direct_allowed_eq (cfg : Config) (dms : Int) (subject relation resource : String) :
    Src.rebac_Checker_direct_allowed (encChecker cfg dms) subject relation resource = directAllowed cfg (subject, relation, resource) := by
  rw [encChecker_eq]
  unfold Src.rebac_Checker_direct_allowed directAllowed
  simp only [store_direct_for_resource_eq, iter_list]
  generalize directFor cfg.tuples relation resource = L
  induction L with
  | nil => rfl
  | cons t L ih =>
    rw [List.map_cons, forRet_cons, ih, directLoop]
    obtain ⟨s, r, o, c⟩ := t
    simp only [ofM]
    by_cases hs : s = subject
    · subst hs
      simp only [bne_self_eq_false, Bool.false_eq_true, if_false]
      cases c with
      | none => rfl
      | some c =>
        have hreg : encReg cfg.reg c = (cfg.reg c).map fun o => match o with | .raises => CallOut.raises | .val b => CallOut.returns b := rfl
        simp only [isNone_option, Option.isNone_some, Bool.false_eq_true, if_false, get_registry_some]
        cases h : cfg.reg c with
        | none => rw [h] at hreg; simp [hreg]
        | some out =>
          rw [h] at hreg
          cases out with
          | raises => simp [hreg, callBool]
          | val b => cases b <;> simp [hreg, callBool, truthy_bool]
    · have : (s != subject) = true := by simpa using hs
      simp only [this, if_true]

/-! ### `_lookup_expr`, `_expand` -/

theorem lookup_expr_eq (cfg : Config) (dms : Int) (objType relation : String) :
    Src.rebac_Checker_lookup_expr (encChecker cfg dms) objType relation =
      ((lookupExpr cfg.rules objType relation).map encExpr).getD Obj.none := by
  rw [encChecker_eq]
  unfold Src.rebac_Checker_lookup_expr
  exact get_orEmpty_get_encRules cfg.rules objType relation

theorem encChecker_store (cfg : Config) (dms : Int) : (encChecker cfg dms).store = storeOf cfg.tuples := by rw [encChecker_eq]

/-- the `TupleToUserset` loop: one node per edge whose subject is an object reference and whose caveat holds -/
theorem flatMap_edges {β : Type} (p : RelTuple → Bool) (f : RelTuple → β) (g : Src.rebac_RelTuple → List β) (L : List RelTuple)
    (hg : ∀ t, g (ofM t) = if p t then [f t] else []) : (L.map ofM).flatMap g = (L.filter p).map f := by
  induction L with
  | nil => rfl
  | cons t L ih =>
    simp only [List.map_cons, List.flatMap_cons, ih, hg, List.filter_cons]
    cases p t <;> simp

mutual
/-- `_expand(expr, subject, resource, context)` yields the model's successor list, in order -/
theorem expand_eq (cfg : Config) (dms : Int) (subject resource : String) (e : Expr) :
    Src.rebac_Checker_expand (encChecker cfg dms) (encExpr e) subject resource = expand cfg subject resource e := by
  rw [Src.rebac_Checker_expand]
  cases e with
  | this => simp [encExpr, Obj.isList, Obj.isInst, expand]
  | computed r => simp [encExpr, Obj.isList, Obj.isInst, expand, Obj.relation, Obj.attr]
  | other => simp [encExpr, Obj.isList, Obj.isInst, expand]
  | union es =>
    simp only [encExpr, Obj.isList, if_true, iter_obj_list, List.append_nil, expand]
    exact expandList_eq cfg dms subject resource es
  | ttu ts cu =>
    simp only [encExpr, Obj.isList, Obj.isInst, Bool.false_eq_true, if_false, List.append_nil, expand, ttuTargets, iter_list,
      encChecker_store, store_direct_for_resource_eq]
    simp only [show ("TupleToUserset" == "This") = false from by decide, show ("TupleToUserset" == "ComputedUserset") = false from by decide,
      show ("TupleToUserset" == "TupleToUserset") = true from by decide, Bool.false_eq_true, if_false, if_true]
    apply flatMap_edges (fun edge => hasColon edge.subject && caveatHolds cfg.reg edge)
    intro t
    have hs : (ofM t).subject = t.subject := rfl
    rw [hs, isIn_colon, caveat_holds_eq, truthy_bool]
    cases hasColon t.subject <;> cases caveatHolds cfg.reg t <;>
      simp [Obj.computed_userset, Obj.attr, List.lookup, show ("computed_userset" == "tupleset") = false from by decide]
theorem expandList_eq (cfg : Config) (dms : Int) (subject resource : String) (es : List Expr) :
    (encExprs es).flatMap (fun e => Src.rebac_Checker_expand (encChecker cfg dms) e subject resource) = expandList cfg subject resource es := by
  cases es with
  | nil => rfl
  | cons e es =>
    simp only [encExprs, List.flatMap_cons, expandList]
    rw [expand_eq cfg dms subject resource e, expandList_eq cfg dms subject resource es]
end

/-! ### `check` -/

/-- FUEL SUFFICES and THE ANSWER IS THE MODEL'S: for every budget of at least `fuelBound cfg` loop iterations the translated `check`
    returns the model's answer under the deadline oracle induced by the clock -/
theorem check_eq (cfg : Config) (dms : Int) (clock : Nat → Int) (subject relation resource : String) (fuel : Nat)
    (h : fuelBound cfg ≤ fuel) :
    Src.rebac_Checker_check (encChecker cfg dms) clock subject relation resource fuel =
      some (check cfg (deadlineOfClock clock dms) (subject, relation, resource)) := by
  unfold Src.rebac_Checker_check
  dsimp only
  generalize hw : whileRet fuel _ _ _ = w
  refine whileRet_bfs_elim encState _ _ cfg (deadlineOfClock clock dms) fuel [((subject, relation, resource), 0)] [] 0 0 w hw
    (Nat.lt_of_lt_of_le (potential_init cfg _) h) ?hcond ?hbody ?hk
  case hk =>
    intro r hr hb
    subst hr
    cases r with
    | ret v => simp only [endBool] at hb; simp only [hb, check, checkOutcome]
    | done st => simp only [endBool] at hb; simp only [check, checkOutcome, ← hb]
  case hcond =>
    intro t q s v
    simp only [encState, truthy_list, List.isEmpty_map]
  case hbody =>
    clear hw
    intro t n d rest s v
    obtain ⟨ns, nr, no⟩ := n
    have hms : (encChecker cfg dms).max_nodes = cfg.maxNodes := by rw [encChecker_eq]
    have hmd : (encChecker cfg dms).max_depth = cfg.maxDepth := by rw [encChecker_eq]
    have hdl : (encChecker cfg dms).deadline_ms = dms := by rw [encChecker_eq]
    simp only [encState, List.map_cons, pop0, afterPop0, List.headD_cons, List.tail_cons, isIn_list, truthy_bool, hms, hmd, hdl,
      direct_allowed_eq, split_ref_eq, lookup_expr_eq]
    by_cases h1 : s.contains (ns, nr, no) = true
    · simp only [h1, if_true]
    · simp only [h1, Bool.false_eq_true, if_false, setAdd]
      have hv : ((v : Int) + 1 > cfg.maxNodes) ↔ (((v + 1 : Nat) : Int) > cfg.maxNodes) := by
        rw [Int.natCast_add]; rfl
      by_cases h2 : ((v + 1 : Nat) : Int) > cfg.maxNodes
      · simp only [hv, h2, decide_true, if_true]
      · simp only [hv, h2, decide_false, Bool.false_eq_true, if_false]
        by_cases h3 : (d : Int) > cfg.maxDepth
        · simp only [h3, decide_true, if_true, Int.natCast_add]; rfl
        · simp only [h3, decide_false, Bool.false_eq_true, if_false]
          have hd : deadlineOfClock clock dms t = decide (clock (t + 1) > clock 0 + dms * 1000000) := rfl
          rw [hd]
          by_cases h4 : clock (t + 1) > clock 0 + dms * 1000000
          · simp only [h4, decide_true, if_true]
          · simp only [h4, decide_false, Bool.false_eq_true, if_false]
            by_cases h5 : directAllowed cfg (ns, nr, no) = true
            · simp only [h5, if_true]
            · simp only [h5, Bool.false_eq_true, if_false, children, successors]
              cases hl : lookupExpr cfg.rules (splitRef no).1 nr with
              | none =>
                simp only [Option.map_none, Option.getD_none]
                simp [isNone, IsNone.isNone, Int.natCast_add]
              | some e =>
                simp only [Option.map_some, Option.getD_some, isNone_encExpr, Bool.false_eq_true, if_false, expand_eq, iter_list,
                  List.append_nil, List.map_append, List.map_map, Int.natCast_add]
                have hfm : ∀ xs : List Triple, List.flatMap (fun x11 => [(x11.fst, x11.snd.fst, x11.snd.snd, (d : Int) + 1)]) xs =
                    List.map ((fun x : Triple × Nat => (x.fst.fst, x.fst.snd.fst, x.fst.snd.snd, (x.snd : Int))) ∘ fun m => (m, d + 1)) xs := by
                  intro xs
                  induction xs with
                  | nil => rfl
                  | cons x xs ih => simp [ih]
                rw [hfm]
                rfl

/-- TERMINATION of the source's `while queue:` on every store (cycles, self loops, duplicates), rule map and limits: within
    `fuelBound cfg` iterations -/
theorem check_terminates (cfg : Config) (dms : Int) (clock : Nat → Int) (subject relation resource : String) (fuel : Nat)
    (h : fuelBound cfg ≤ fuel) :
    (Src.rebac_Checker_check (encChecker cfg dms) clock subject relation resource fuel).isSome = true := by
  rw [check_eq cfg dms clock subject relation resource fuel h]; rfl

/-- the model's adversarial deadline oracles are exactly the clock behaviours: every `hit : Nat → Bool` is `deadlineOfClock` of a
    clock (start 0, deadline_ms 0, the k-th in-loop reading 1 when `hit k` and 0 otherwise) -/
theorem every_oracle_is_a_clock (hit : Nat → Bool) :
    deadlineOfClock (fun i => match i with | 0 => 0 | k + 1 => if hit k then 1 else 0) 0 = hit := by
  funext k
  simp only [deadlineOfClock]
  by_cases hk : hit k = true
  · simp [hk]
  · have hk' : hit k = false := by simpa using hk
    simp [hk']

/-- hence: for every deadline oracle the translated `check`, under a clock with that oracle, is the model's `check` -/
theorem check_eq_oracle (cfg : Config) (hit : Nat → Bool) (q : Triple) (fuel : Nat) (h : fuelBound cfg ≤ fuel) :
    ∃ clock : Nat → Int, Src.rebac_Checker_check (encChecker cfg 0) clock q.1 q.2.1 q.2.2 fuel = some (check cfg hit q) := by
  refine ⟨fun i => match i with | 0 => 0 | k + 1 => if hit k then 1 else 0, ?_⟩
  rw [check_eq cfg 0 _ q.1 q.2.1 q.2.2 fuel h, every_oracle_is_a_clock hit]

/-! ### `batch_check` -/

/-- `batch_check(triples)` with the j-th actual `self.check` call of the batch given by `chk j`: the model's memo loop -/
theorem batch_check_eq (self : Src.rebac_Checker) (chk : Nat → String → String → String → Bool) (triples : List Triple) :
    Src.rebac_Checker_batch_check self chk triples = batchLoop (fun j q => chk j q.1 q.2.1 q.2.2) triples [] := by
  unfold Src.rebac_Checker_batch_check
  dsimp only
  have := forState_batch (fun j q => chk j q.1 q.2.1 q.2.2) triples Dict.empty [] [] 0 (fun k => rfl) rfl
  simpa [iter_list] using this

/-- … and when those calls are the translated `check` itself (call j under clock `clocks j`, any sufficient budgets): the model's
    `batchCheck` under the induced oracles -/
theorem batch_check_model (cfg : Config) (dms : Int) (clocks : Nat → Nat → Int) (fuel : Nat) (h : fuelBound cfg ≤ fuel)
    (triples : List Triple) :
    Src.rebac_Checker_batch_check (encChecker cfg dms)
        (fun j s r o => (Src.rebac_Checker_check (encChecker cfg dms) (clocks j) s r o fuel).getD false) triples =
      batchCheck cfg (fun j => deadlineOfClock (clocks j) dms) triples := by
  rw [batch_check_eq]
  unfold batchCheck
  congr 1
  funext j q
  rw [check_eq cfg dms (clocks j) q.1 q.2.1 q.2.2 fuel h]
  rfl

/-! ### C12's statements, about the translated source -/

/-- SOUND: `true` from the translated `check` (any sufficient budget, any clock) is a derivation within `max_depth` -/
theorem check_sound (cfg : Config) (dms : Int) (clock : Nat → Int) (s r o : String) (fuel : Nat) (h : fuelBound cfg ≤ fuel)
    (ht : Src.rebac_Checker_check (encChecker cfg dms) clock s r o fuel = some true) :
    ∃ d : Nat, (d : Int) ≤ cfg.maxDepth ∧ Derivable cfg d (s, r, o) := by
  rw [check_eq cfg dms clock s r o fuel h] at ht
  exact C12.c12_sound cfg _ _ (Option.some.inj ht)

/-- COMPLETE: an uncut run answers `true` for everything derivable within `max_depth` -/
theorem check_complete (cfg : Config) (dms : Int) (clock : Nat → Int) (s r o : String) (fuel : Nat) (h : fuelBound cfg ≤ fuel)
    (hlim : C12.NoLimitHit cfg (deadlineOfClock clock dms) (s, r, o))
    (hd : ∃ d : Nat, (d : Int) ≤ cfg.maxDepth ∧ Derivable cfg d (s, r, o)) :
    Src.rebac_Checker_check (encChecker cfg dms) clock s r o fuel = some true := by
  rw [check_eq cfg dms clock s r o fuel h, C12.c12_complete cfg _ _ hlim hd]

/-- LIMITS FAIL CLOSED: `max_nodes ≤ 0`, a negative `max_depth`, or a first in-loop clock reading past the deadline give `False` -/
theorem check_limits_fail_closed (cfg : Config) (dms : Int) (clock : Nat → Int) (s r o : String) (fuel : Nat) (h : fuelBound cfg ≤ fuel) :
    (cfg.maxNodes ≤ 0 → Src.rebac_Checker_check (encChecker cfg dms) clock s r o fuel = some false) ∧
    (cfg.maxDepth < 0 → Src.rebac_Checker_check (encChecker cfg dms) clock s r o fuel = some false) ∧
    (clock 1 > clock 0 + dms * 1000000 → Src.rebac_Checker_check (encChecker cfg dms) clock s r o fuel = some false) := by
  rw [check_eq cfg dms clock s r o fuel h]
  obtain ⟨_, h2, h3, h4⟩ := C12.c12_limits_fail_closed cfg (deadlineOfClock clock dms) (s, r, o)
  refine ⟨fun hn => by rw [h2 hn], fun hn => by rw [h3 hn], fun hn => by rw [h4 (by simp [deadlineOfClock, hn])]⟩

/-- BATCH = MAP: when every call of the batch sees the same clock behaviour, `batch_check` is the list of the individual checks -/
theorem batch_eq_map (cfg : Config) (dms : Int) (clock : Nat → Int) (fuel : Nat) (h : fuelBound cfg ≤ fuel) (triples : List Triple) :
    Src.rebac_Checker_batch_check (encChecker cfg dms)
        (fun _ s r o => (Src.rebac_Checker_check (encChecker cfg dms) clock s r o fuel).getD false) triples =
      triples.map (check cfg (deadlineOfClock clock dms)) := by
  rw [batch_check_model cfg dms (fun _ => clock) fuel h]
  exact C12.c12_batch_eq_map cfg _ triples

/-! non-vacuity: the example store of Properties/C12.lean, loaded by `add`; the budget it needs -/
example : fuelBound C12.exCfg = 1102 := by decide
example : (Src.rebac_Store_direct_for_resource (storeOf C12.exCfg.tuples) "parent" "doc:d1").length = 1 := by
  rw [store_direct_for_resource_eq]; decide

end Rbacx.Translated

#print axioms Rbacx.Translated.obj_classes
#print axioms Rbacx.Translated.split_ref_eq
#print axioms Rbacx.Translated.store_direct_for_resource_eq
#print axioms Rbacx.Translated.store_by_subject_eq
#print axioms Rbacx.Translated.checker_init_defaults
#print axioms Rbacx.Translated.caveat_holds_eq
#print axioms Rbacx.Translated.direct_allowed_eq
#print axioms Rbacx.Translated.lookup_expr_eq
#print axioms Rbacx.Translated.expand_eq
#print axioms Rbacx.Translated.check_eq
#print axioms Rbacx.Translated.check_terminates
#print axioms Rbacx.Translated.every_oracle_is_a_clock
#print axioms Rbacx.Translated.check_eq_oracle
#print axioms Rbacx.Translated.batch_check_eq
#print axioms Rbacx.Translated.batch_check_model
#print axioms Rbacx.Translated.check_sound
#print axioms Rbacx.Translated.check_complete
#print axioms Rbacx.Translated.check_limits_fail_closed
#print axioms Rbacx.Translated.batch_eq_map
