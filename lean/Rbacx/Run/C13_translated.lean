import Rbacx.Generated
import Rbacx.Proofs.RelTranslated
import Rbacx.Run.C04_translated
/-!
  Per-run obligation: the `rel` branch of `eval_condition` (core/policy.py) as it is written NOW — the body of `if 'rel' in cond:`,
  translated statement by statement in STATE-AND-EXCEPTION-PASSING style into `Rbacx.Generated.Src.rel_range`, and `_canon_subject` /
  `_canon_resource`, translated into `Src.canon_subject` / `Src.canon_resource` (harness/pytolean_rel.py, plugin
  `extractors/src_translation_rel.py`; Python operations: Model/PyExcept.lean, Model/PyRel.lean) — does what the hand-written model says
  (`canonSubject`, `canonResource`, `relQuery`, `evalRel` of Model/Cond.lean; `evalRelM` of Model/RelMemo.lean), the functions the
  theorems `Rbacx.C13.*` are about: the SAME canonical triple and merged context handed to the checker, the SAME fail-closed cases, the
  memo probed BEFORE the call and the answer stored AFTER it, for every environment `Guard` can build (`EnvOk`), every `rel` expression
  (str / dict / anything else), every checker outcome function (absent / returns any value / raises) and every memo state.

  Parameters of the translation and how they are instantiated here: `getattr` = `noAttr` (as in C04_translated); `_ctx_hash` = any function
  returning a str (`hf`; for the tie with the model's memo: one that identifies exactly the contexts `normCtx` identifies — ASSUMPTION on
  json.dumps(sort_keys=True)); `resolve_awaitable_in_worker` = the identity on its first argument (READING: the checker's outcome function
  gives the RESOLVED value of `check(…)`, a failed resolution is the outcome "raised"); `REL_CHECKER.get()` = the optional outcome function;
  `EVAL_LOOP.get()` = anything; `REL_LOCAL_CACHE.get()` = the memo state (`none` = not a dict).
-/
namespace Rbacx.Translated
open Rbacx Rbacx.Py Rbacx.PyE Rbacx.PyR Rbacx.Generated PyVal

theorem truthy_isNotNone (v : PyVal) : (Rbacx.Py.isNotNone v).truthy = !v.isNone := rfl

/-! ### stage 2: the canonicalisers -/

/-- `_canon_subject(env, override)` never raises on a well-formed env and is the model's `canonSubject` -/
theorem canon_subject (o : Oracle) (kvs : List (String × PyVal)) (henv : EnvOk (.dict kvs)) (ov : PyVal) :
    Src.canon_subject o noAttr (.dict kvs) ov = .ok (.str (canonSubject o (.dict kvs) ov)) := by
  obtain ⟨d, hd, hdd, hget, _, _⟩ := getDE_env kvs "subject" henv.subject
  have hdef : (PyE.bind (getDE (.dict kvs) (.str "subject") (.dict [])) fun t3 =>
        PyE.bind (getE t3 (.str "id")) fun t4 =>
        (Except.ok (if (Rbacx.Py.isNotNone t4).truthy then (Rbacx.Py.fstr [(PyVal.str "user:"), (Rbacx.Py.strO o t4)]) else (PyVal.str "user:")) : Except CondErr PyVal)) =
      .ok (.str (if (((PyVal.dict kvs).get "subject").get "id").isNone then "user:" else "user:" ++ o.pyStr (((PyVal.dict kvs).get "subject").get "id"))) := by
    simp only [hd, bind_ok, getE_dict d "id" hdd, hget, truthy_isNotNone, strO, fstr2]
    cases (((PyVal.dict kvs).get "subject").get "id").isNone <;> rfl
  unfold Src.canon_subject canonSubject
  rcases Bool.eq_false_or_eq_true ov.isNone with hov | hov
  · have h1 : (Rbacx.Py.isNotNone ov).truthy = false := by rw [truthy_isNotNone, hov]; rfl
    simp only [h1, hov, Bool.false_eq_true, if_false, if_true]
    exact hdef
  · have h1 : (Rbacx.Py.isNotNone ov).truthy = true := by rw [truthy_isNotNone, hov]; rfl
    simp only [h1, hov, if_true, Rbacx.Translated.resolve, bind_ok, Bool.false_eq_true, if_false]
    cases hr : Rbacx.resolve o ov (PyVal.dict kvs) with
    | str v =>
      simp only [truthy_isInstance_str, PyVal.isStr, if_true, containsE_colon, bind_ok, truthy_bool, strO, fstr2, Oracle.pyStr]
      cases v.toList.contains ':' <;> rfl
    | _ => simp only [truthy_isInstance_str, PyVal.isStr, Bool.false_eq_true, if_false]; exact hdef

/-- `_canon_resource(env, override)` never raises on a well-formed env and is the model's `canonResource` -/
theorem canon_resource (o : Oracle) (kvs : List (String × PyVal)) (henv : EnvOk (.dict kvs)) (ov : PyVal) :
    Src.canon_resource o noAttr (.dict kvs) ov = .ok (.str (canonResource o (.dict kvs) ov)) := by
  obtain ⟨d, hd, hdd, hget, hpd, hpget⟩ := getDE_env kvs "resource" henv.resource
  have hdef : (PyE.bind (getDE (.dict kvs) (.str "resource") (.dict [])) fun t5 =>
        let r := (PyVal.por t5 (PyVal.dict []))
        PyE.bind (getE r (.str "type")) fun t6 =>
        let rtype := (PyVal.por t6 (PyVal.str "object"))
        PyE.bind (getE r (.str "id")) fun t7 =>
        let rid := t7
        (Except.ok (if ((Rbacx.Py.isNotNone rid)).truthy then (Rbacx.Py.fstr [(Rbacx.Py.strO o rtype), (PyVal.str ":"), (Rbacx.Py.strO o rid)])
          else (Rbacx.Py.fstr [(Rbacx.Py.strO o rtype), (PyVal.str ":")])) : Except CondErr PyVal)) =
      .ok (.str (if (((PyVal.dict kvs).get "resource").get "id").isNone
        then o.pyStr (PyVal.por (((PyVal.dict kvs).get "resource").get "type") (.str "object")) ++ ":"
        else o.pyStr (PyVal.por (((PyVal.dict kvs).get "resource").get "type") (.str "object")) ++ ":" ++ o.pyStr (((PyVal.dict kvs).get "resource").get "id"))) := by
    simp only [hd, bind_ok, getE_dict _ _ hpd, hpget, truthy_isNotNone, strO, fstr2, fstr3]
    cases (((PyVal.dict kvs).get "resource").get "id").isNone <;> rfl
  unfold Src.canon_resource canonResource
  rcases Bool.eq_false_or_eq_true ov.isNone with hov | hov
  · have h1 : (Rbacx.Py.isNotNone ov).truthy = false := by rw [truthy_isNotNone, hov]; rfl
    simp only [h1, hov, Bool.false_eq_true, if_false, if_true]
    exact hdef
  · have h1 : (Rbacx.Py.isNotNone ov).truthy = true := by rw [truthy_isNotNone, hov]; rfl
    simp only [h1, hov, if_true, Rbacx.Translated.resolve, bind_ok, Bool.false_eq_true, if_false]
    cases hr : Rbacx.resolve o ov (PyVal.dict kvs) with
    | str v =>
      simp only [truthy_isInstance_str, PyVal.isStr, if_true, containsE_colon, bind_ok, truthy_bool, hd, getE_dict d "type" hdd, hget, strO, fstr3,
        Oracle.pyStr]
      cases v.toList.contains ':' <;> rfl
    | _ => simp only [truthy_isInstance_str, PyVal.isStr, Bool.false_eq_true, if_false]; exact hdef

/-! ### stage 3: the branch -/

/-- the caveat contexts the theorems speak about: `context._rebac` and the condition's `ctx` are not non-empty lists / strs (`dict(…)` of
    those — pairs, TypeError, ValueError — is not represented; the model says TypeError) -/
structure CtxOk (env expr : PyVal) : Prop where
  rebac : noSeq ((PyVal.por (env.get "context") (.dict [])).get "_rebac") = true
  localCtx : noSeq (expr.get "ctx") = true

/-- THE tie for C13, on the state of the translation: for EVERY memo state `st` (a dict with any content, or not a dict), every checker
    outcome function `f` (absent / any returned value / raises) and every `rel` expression (str, dict, anything else), one run of the
    branch as the source has it NOW does what `relStep` says with the lookup the MODEL's `relQuery` computes: nothing to ask or nobody
    to ask ⇒ `False`, nobody called (fail closed); memo probed first with the canonical key; on a miss ONE call with the model's
    canonical (subject, relation, resource, merged context); a raise ⇒ `False` (fail closed); the answer stored under the key -/
theorem rel_range_step (o : Oracle) (hf : PyVal → String) (ctx_hash : PyVal → Except CondErr PyVal) (hhash : ∀ c, ctx_hash c = .ok (.str (hf c)))
    (raw : PyVal → PyVal → PyVal → Except CondErr PyVal) (hraw : ∀ r l t, raw r l t = .ok r) (f : Checker) (loop : PyVal)
    (ckvs : List (String × PyVal)) (hrel : PyVal.hasKey (.dict ckvs) "rel" = true) (ekvs : List (String × PyVal)) (henv : EnvOk (.dict ekvs))
    (hctx : CtxOk (.dict ekvs) ((PyVal.dict ckvs).get "rel")) (st : St) :
    Src.rel_range o noAttr ctx_hash raw f loop (.dict ckvs) (.dict ekvs) st =
      relStep hf f (relQuery o ((PyVal.dict ckvs).get "rel") (.dict ekvs)) st := by
  unfold Src.rel_range
  rw [itemE_key ckvs "rel" hrel, bindE_ok]
  obtain ⟨h1, h2⟩ := hctx
  generalize (PyVal.dict ckvs).get "rel" = expr at h2 ⊢
  rw [relQuery_eq]
  cases expr with
  | str s =>
    simp only [truthy_isInstance_str, PyVal.isStr, if_true, canon_subject o ekvs henv, canon_resource o ekvs henv, bindE_ok]
    exact relRest_spec hf ctx_hash hhash raw hraw f loop (.dict ekvs) henv _ s _ .none h1 rfl st
  | dict kvs =>
    simp only [truthy_isInstance_str, truthy_isInstance_dict, PyVal.isStr, PyVal.isDict, Bool.false_eq_true, if_false, if_true,
      getE_dict (.dict kvs) _ rfl, bindE_ok, canon_subject o ekvs henv, canon_resource o ekvs henv, strO]
    exact relRest_spec hf ctx_hash hhash raw hraw f loop (.dict ekvs) henv _ _ _ ((PyVal.dict kvs).get "ctx") h1 h2 st
  | _ => rfl

/-- … and on the image of a MODEL state (`encSt`: a dict memo holding the model's entries under the source's keys, the calls made so far)
    that is the model's memoised `rel` node `evalRelM` — same answer or exception, same memo afterwards, same calls — with the model's
    checker = the truth value of the outcome (`absChecker`).  `hinj`: `_ctx_hash` identifies exactly the contexts `normCtx` identifies.
    So `Rbacx.C13.c13_at_most_once` / `c13_calls_are_memoised` / `c13_memo_transparent` (theorems about `evalRelM` threaded through a
    decision) and `c13_canonical_*` / `c13_fail_closed_*` (about `relQuery` / `evalRel`) speak about the current source of the branch -/
theorem rel_range_model (o : Oracle) (hf : PyVal → String) (hinj : ∀ a b, (hf a == hf b) = (normCtx a == normCtx b))
    (ctx_hash : PyVal → Except CondErr PyVal) (hhash : ∀ c, ctx_hash c = .ok (.str (hf c)))
    (raw : PyVal → PyVal → PyVal → Except CondErr PyVal) (hraw : ∀ r l t, raw r l t = .ok r) (f : Checker) (loop : PyVal)
    (ckvs : List (String × PyVal)) (hrel : PyVal.hasKey (.dict ckvs) "rel" = true) (ekvs : List (String × PyVal)) (henv : EnvOk (.dict ekvs))
    (hctx : CtxOk (.dict ekvs) ((PyVal.dict ckvs).get "rel")) (mst : RelSt) :
    Src.rel_range o noAttr ctx_hash raw f loop (.dict ckvs) (.dict ekvs) (encSt hf mst) =
      (((evalRelM { o := o, env := .dict ekvs, checker := f.map absChecker } ((PyVal.dict ckvs).get "rel") mst).1).map PyVal.bool,
       encSt hf (evalRelM { o := o, env := .dict ekvs, checker := f.map absChecker } ((PyVal.dict ckvs).get "rel") mst).2) := by
  rw [rel_range_step o hf ctx_hash hhash raw hraw f loop ckvs hrel ekvs henv hctx, relStep_model hf hinj]

/-- without a memo (`REL_LOCAL_CACHE.get()` is not a dict), or with an empty one, the answer is the model's PURE `evalRel` -/
theorem rel_range_pure (o : Oracle) (hf : PyVal → String) (ctx_hash : PyVal → Except CondErr PyVal) (hhash : ∀ c, ctx_hash c = .ok (.str (hf c)))
    (raw : PyVal → PyVal → PyVal → Except CondErr PyVal) (hraw : ∀ r l t, raw r l t = .ok r) (f : Checker) (loop : PyVal)
    (ckvs : List (String × PyVal)) (hrel : PyVal.hasKey (.dict ckvs) "rel" = true) (ekvs : List (String × PyVal)) (henv : EnvOk (.dict ekvs))
    (hctx : CtxOk (.dict ekvs) ((PyVal.dict ckvs).get "rel")) (memo : Option (List (PyVal × PyVal))) (hm : memo = Option.none ∨ memo = some [])
    (calls : List (List PyVal)) :
    (Src.rel_range o noAttr ctx_hash raw f loop (.dict ckvs) (.dict ekvs) { memo := memo, calls := calls }).1 =
      (evalRel { o := o, env := .dict ekvs, checker := f.map absChecker } ((PyVal.dict ckvs).get "rel")).map PyVal.bool := by
  rw [rel_range_step o hf ctx_hash hhash raw hraw f loop ckvs hrel ekvs henv hctx]
  unfold relStep evalRel
  simp only [Bind.bind, Except.bind, Pure.pure, Except.pure]
  cases relQuery o ((PyVal.dict ckvs).get "rel") (.dict ekvs) with
  | error e => rfl
  | ok q =>
    cases q with
    | none => rfl
    | some key =>
      cases f with
      | none => rfl
      | some g => rcases hm with rfl | rfl <;> rfl

/-- the checker is consulted at most once per run, and only with the model's canonical key -/
theorem rel_range_calls (o : Oracle) (hf : PyVal → String) (ctx_hash : PyVal → Except CondErr PyVal) (hhash : ∀ c, ctx_hash c = .ok (.str (hf c)))
    (raw : PyVal → PyVal → PyVal → Except CondErr PyVal) (hraw : ∀ r l t, raw r l t = .ok r) (f : Checker) (loop : PyVal)
    (ckvs : List (String × PyVal)) (hrel : PyVal.hasKey (.dict ckvs) "rel" = true) (ekvs : List (String × PyVal)) (henv : EnvOk (.dict ekvs))
    (hctx : CtxOk (.dict ekvs) ((PyVal.dict ckvs).get "rel")) (st : St) :
    (Src.rel_range o noAttr ctx_hash raw f loop (.dict ckvs) (.dict ekvs) st).2.calls = st.calls ∨
      ∃ key, relQuery o ((PyVal.dict ckvs).get "rel") (.dict ekvs) = .ok (some key) ∧ f.isSome = true ∧
        (∀ m, st.memo = some m → memoFind m (encKey hf key) = Option.none) ∧
        (Src.rel_range o noAttr ctx_hash raw f loop (.dict ckvs) (.dict ekvs) st).2.calls = st.calls ++ [encArgs key] := by
  rw [rel_range_step o hf ctx_hash hhash raw hraw f loop ckvs hrel ekvs henv hctx]
  unfold relStep
  cases hq : relQuery o ((PyVal.dict ckvs).get "rel") (.dict ekvs) with
  | error e => exact Or.inl rfl
  | ok q =>
    cases q with
    | none => exact Or.inl rfl
    | some key =>
      cases f with
      | none => exact Or.inl rfl
      | some g =>
        obtain ⟨memo, calls⟩ := st
        cases memo with
        | none => exact Or.inr ⟨key, rfl, rfl, (fun m h => by cases h), rfl⟩
        | some m =>
          cases hfind : memoFind m (encKey hf key) with
          | some v => simp only [hfind]; exact Or.inl trivial
          | none => simp only [hfind]; exact Or.inr ⟨key, rfl, rfl, (fun m' h => by cases h; exact hfind), rfl⟩

/-- COROLLARY: the external parameter `rel_branch` of the translated `eval_condition` instantiated with the TRANSLATED branch (run without
    a memo; its answer only) — on a condition document that is a `rel` node the whole translated evaluator is the model's `evalCond`.
    (For a whole TREE of conditions the same holds node by node; the induction over the document with the translated branch in place of
    `relExt` — it needs `CtxOk` for every `rel` node of the document — is NOT proved here: `eval_condition_rel_leaf` is the partial version.) -/
theorem eval_condition_rel_leaf (cx : CondCtx) (hf : PyVal → String) (ctx_hash : PyVal → Except CondErr PyVal) (hhash : ∀ c, ctx_hash c = .ok (.str (hf c)))
    (raw : PyVal → PyVal → PyVal → Except CondErr PyVal) (hraw : ∀ r l t, raw r l t = .ok r) (f : Checker) (hf' : cx.checker = f.map absChecker) (loop : PyVal)
    (ckvs : List (String × PyVal)) (hrel : PyVal.hasKey (.dict ckvs) "rel" = true) (ekvs : List (String × PyVal)) (he : cx.env = .dict ekvs)
    (henv : EnvOk (.dict ekvs)) (hctx : CtxOk (.dict ekvs) ((PyVal.dict ckvs).get "rel")) (n : Nat) :
    Src.eval_condition cx.o noAttr (parseDtExt cx.o)
        (fun c e => (Src.rel_range cx.o noAttr ctx_hash raw f loop c e { memo := Option.none, calls := [] }).1) (.dict ckvs) cx.env (n + 1) =
      (evalCond cx (condOf (.dict ckvs))).map PyVal.bool := by
  have hcx : cx = { o := cx.o, env := .dict ekvs, checker := f.map absChecker } := by
    cases cx; simp_all
  unfold Src.eval_condition
  simp only [is_strict_e, bind_ok, truthy_pnot, truthy_isInstance_dict, PyVal.isDict, Bool.not_true, Bool.false_eq_true, if_false,
    containsE_key, truthy_bool, hrel, if_true, he]
  rw [rel_range_pure cx.o hf ctx_hash hhash raw hraw f loop ckvs hrel ekvs henv hctx Option.none (Or.inl rfl) []]
  have hc : condOf (.dict ckvs) = .rel ((PyVal.dict ckvs).get "rel") := by
    simp only [condOf, parseCond, hrel, if_true]
  rw [hc, evalCond, ← hcx]

end Rbacx.Translated

#print axioms Rbacx.Translated.canon_subject
#print axioms Rbacx.Translated.canon_resource
#print axioms Rbacx.Translated.rel_range_step
#print axioms Rbacx.Translated.rel_range_model
#print axioms Rbacx.Translated.rel_range_pure
#print axioms Rbacx.Translated.rel_range_calls
#print axioms Rbacx.Translated.eval_condition_rel_leaf
