import Rbacx.Generated
import Rbacx.Proofs.RelTranslated
import Rbacx.Run.C04_translated
/-!
  Per-run obligation: the `rel` branch of `eval_condition` (core/policy.py) as it is written NOW — the body of `if 'rel' in cond:`,
  translated statement by statement in STATE-AND-EXCEPTION-PASSING style into `Rbacx.Generated.Src.rel_range`, and `_canon_subject` /
  `_canon_resource`, translated into `Src.canon_subject` / `Src.canon_resource` (harness/pytolean_rel.py, plugin
  `extractors/src_translation_rel.py`; Python operations: Model/PyExcept.lean, Model/PyRel.lean) — does what the hand-written model says
  (`canonSubject`, `canonResource`, `relQuery`, `evalRel` of Model/Cond.lean; `evalRelM` of Model/RelMemo.lean), the functions the
  theorems `Rbacx.C13.*` are about: the SAME canonical triple and merged context handed to the checker, the SAME fail-closed cases, the
  memo probed BEFORE the call and the answer stored AFTER it, for every environment `Guard` can build (`EnvOk`), every `rel` expression
  (str / dict / anything else), every checker outcome function (absent / returns any value / raises) and every memo state.

  Parameters of the translation and how they are instantiated here: `getattr` = `noAttr` (as in C04_translated); `_ctx_hash` = any function
  returning a str (`hf`; for the tie with the model's memo: one that identifies exactly the contexts `normCtx` identifies — ASSUMPTION on
  json.dumps(sort_keys=True)); `resolve_awaitable_in_worker` = the identity on its first argument (READING: the checker's outcome function
  gives the RESOLVED value of `check(…)`, a failed resolution is the outcome "raised"); `REL_CHECKER.get()` = the optional outcome function;
  `EVAL_LOOP.get()` = anything; `REL_LOCAL_CACHE.get()` = the memo state (`none` = not a dict).
-/
namespace Rbacx.Translated
open Rbacx Rbacx.Py Rbacx.PyE Rbacx.PyR Rbacx.Generated PyVal

theorem truthy_isNotNone (v : PyVal) : (Rbacx.Py.isNotNone v).truthy = !v.isNone := rfl

/-! ### stage 2: the canonicalisers -/

/-- `_canon_subject(env, override)` never raises on a well-formed env and is the model's `canonSubject` -/
theorem canon_subject (o : Oracle) (kvs : List (String × PyVal)) (henv : EnvOk (.dict kvs)) (ov : PyVal) :
    Src.canon_subject o noAttr (.dict kvs) ov = .ok (.str (canonSubject o (.dict kvs) ov)) := by
  obtain ⟨d, hd, hdd, hget, _, _⟩ := getDE_env kvs "subject" henv.subject
  have hdef : (PyE.bind (getDE (.dict kvs) (.str "subject") (.dict [])) fun t3 =>
        PyE.bind (getE t3 (.str "id")) fun t4 =>
        (Except.ok (if (Rbacx.Py.isNotNone t4).truthy then (Rbacx.Py.fstr [(PyVal.str "user:"), (Rbacx.Py.strO o t4)]) else (PyVal.str "user:")) : Except CondErr PyVal)) =
      .ok (.str (if (((PyVal.dict kvs).get "subject").get "id").isNone then "user:" else "user:" ++ o.pyStr (((PyVal.dict kvs).get "subject").get "id"))) := by
    simp only [hd, bind_ok, getE_dict d "id" hdd, hget, truthy_isNotNone, strO, fstr2]
    cases (((PyVal.dict kvs).get "subject").get "id").isNone <;> rfl
  unfold Src.canon_subject canonSubject
  rcases Bool.eq_false_or_eq_true ov.isNone with hov | hov
  · have h1 : (Rbacx.Py.isNotNone ov).truthy = false := by rw [truthy_isNotNone, hov]; rfl
    simp only [h1, hov, Bool.false_eq_true, if_false, if_true]
    exact hdef
  · have h1 : (Rbacx.Py.isNotNone ov).truthy = true := by rw [truthy_isNotNone, hov]; rfl
    simp only [h1, hov, if_true, Rbacx.Translated.resolve, bind_ok, Bool.false_eq_true, if_false]
    cases hr : Rbacx.resolve o ov (PyVal.dict kvs) with
    | str v =>
      simp only [truthy_isInstance_str, PyVal.isStr, if_true, containsE_colon, bind_ok, truthy_bool, strO, fstr2, Oracle.pyStr]
      cases v.toList.contains ':' <;> rfl
    | _ => simp only [truthy_isInstance_str, PyVal.isStr, Bool.false_eq_true, if_false]; exact hdef

/-- `_canon_resource(env, override)` never raises on a well-formed env and is the model's `canonResource` -/
theorem canon_resource (o : Oracle) (kvs : List (String × PyVal)) (henv : EnvOk (.dict kvs)) (ov : PyVal) :
    Src.canon_resource o noAttr (.dict kvs) ov = .ok (.str (canonResource o (.dict kvs) ov)) := by
  obtain ⟨d, hd, hdd, hget, hpd, hpget⟩ := getDE_env kvs "resource" henv.resource
  have hdef : (PyE.bind (getDE (.dict kvs) (.str "resource") (.dict [])) fun t5 =>
        let r := (PyVal.por t5 (PyVal.dict []))
        PyE.bind (getE r (.str "type")) fun t6 =>
        let rtype := (PyVal.por t6 (PyVal.str "object"))
        PyE.bind (getE r (.str "id")) fun t7 =>
        let rid := t7
        (Except.ok (if ((Rbacx.Py.isNotNone rid)).truthy then (Rbacx.Py.fstr [(Rbacx.Py.strO o rtype), (PyVal.str ":"), (Rbacx.Py.strO o rid)])
          else (Rbacx.Py.fstr [(Rbacx.Py.strO o rtype), (PyVal.str ":")])) : Except CondErr PyVal)) =
      .ok (.str (if (((PyVal.dict kvs).get "resource").get "id").isNone
        then o.pyStr (PyVal.por (((PyVal.dict kvs).get "resource").get "type") (.str "object")) ++ ":"
        else o.pyStr (PyVal.por (((PyVal.dict kvs).get "resource").get "type") (.str "object")) ++ ":" ++ o.pyStr (((PyVal.dict kvs).get "resource").get "id"))) := by
    simp only [hd, bind_ok, getE_dict _ _ hpd, hpget, truthy_isNotNone, strO, fstr2, fstr3]
    cases (((PyVal.dict kvs).get "resource").get "id").isNone <;> rfl
  unfold Src.canon_resource canonResource
  rcases Bool.eq_false_or_eq_true ov.isNone with hov | hov
  · have h1 : (Rbacx.Py.isNotNone ov).truthy = false := by rw [truthy_isNotNone, hov]; rfl
    simp only [h1, hov, Bool.false_eq_true, if_false, if_true]
    exact hdef
  · have h1 : (Rbacx.Py.isNotNone ov).truthy = true := by rw [truthy_isNotNone, hov]; rfl
    simp only [h1, hov, if_true, Rbacx.Translated.resolve, bind_ok, Bool.false_eq_true, if_false]
    cases hr : Rbacx.resolve o ov (PyVal.dict kvs) with
    | str v =>
      simp only [truthy_isInstance_str, PyVal.isStr, if_true, containsE_colon, bind_ok, truthy_bool, hd, getE_dict d "type" hdd, hget, strO, fstr3,
        Oracle.pyStr]
      cases v.toList.contains ':' <;> rfl
    | _ => simp only [truthy_isInstance_str, PyVal.isStr, Bool.false_eq_true, if_false]; exact hdef

end Rbacx.Translated

#print axioms Rbacx.Translated.canon_subject
#print axioms Rbacx.Translated.canon_resource
