import Rbacx.Generated
import Rbacx.Proofs.RelTranslated
import Rbacx.Run.C04_translated
/-!
  Per-run obligation: the `rel` branch of `eval_condition` (core/policy.py) as it is written NOW — the body of `if 'rel' in cond:`,
  translated statement by statement in STATE-AND-EXCEPTION-PASSING style into `Rbacx.Generated.Src.rel_range`, and `_canon_subject` /
  `_canon_resource`, translated into `Src.canon_subject` / `Src.canon_resource` (harness/pytolean_rel.py, plugin
  `extractors/src_translation_rel.py`; Python operations: Model/PyExcept.lean, Model/PyRel.lean) — does what the hand-written model says
  (`canonSubject`, `canonResource`, `relQuery`, `evalRel` of Model/Cond.lean; `evalRelM` of Model/RelMemo.lean), the functions the
  theorems `Rbacx.C13.*` are about: the SAME canonical triple and merged context handed to the checker, the SAME fail-closed cases, the
  memo probed BEFORE the call and the answer stored AFTER it, for every environment `Guard` can build (`EnvOk`), every `rel` expression
  (str / dict / anything else), every checker outcome function (absent / returns any value / raises) and every memo state.

  Parameters of the translation and how they are instantiated here: `getattr` = `noAttr` (as in C04_translated); `_ctx_hash` = any function
  returning a str (`hf`; for the tie with the model's memo: one that identifies exactly the contexts `normCtx` identifies — ASSUMPTION on
  json.dumps(sort_keys=True)); `resolve_awaitable_in_worker` = the identity on its first argument (READING: the checker's outcome function
  gives the RESOLVED value of `check(…)`, a failed resolution is the outcome "raised"); `REL_CHECKER.get()` = the optional outcome function;
  `EVAL_LOOP.get()` = anything; `REL_LOCAL_CACHE.get()` = the memo state (`none` = not a dict).
-/
namespace Rbacx.Translated
open Rbacx Rbacx.Py Rbacx.PyE Rbacx.PyR Rbacx.Generated PyVal

theorem truthy_isNotNone (v : PyVal) : (Rbacx.Py.isNotNone v).truthy = !v.isNone := rfl

/-! ### stage 2: the canonicalisers -/

/-- `_canon_subject(env, override)` never raises on a well-formed env and is the model's `canonSubject` -/
theorem canon_subject (o : Oracle) (kvs : List (String × PyVal)) (henv : EnvOk (.dict kvs)) (ov : PyVal) :
    Src.canon_subject o noAttr (.dict kvs) ov = .ok (.str (canonSubject o (.dict kvs) ov)) := by
  obtain ⟨d, hd, hdd, hget, _, _⟩ := getDE_env kvs "subject" henv.subject
  have hdef : (PyE.bind (getDE (.dict kvs) (.str "subject") (.dict [])) fun t3 =>
        PyE.bind (getE t3 (.str "id")) fun t4 =>
        (Except.ok (if (Rbacx.Py.isNotNone t4).truthy then (Rbacx.Py.fstr [(PyVal.str "user:"), (Rbacx.Py.strO o t4)]) else (PyVal.str "user:")) : Except CondErr PyVal)) =
      .ok (.str (if (((PyVal.dict kvs).get "subject").get "id").isNone then "user:" else "user:" ++ o.pyStr (((PyVal.dict kvs).get "subject").get "id"))) := by
    simp only [hd, bind_ok, getE_dict d "id" hdd, hget, truthy_isNotNone, strO, fstr2]
    cases (((PyVal.dict kvs).get "subject").get "id").isNone <;> rfl
  unfold Src.canon_subject canonSubject
  rcases Bool.eq_false_or_eq_true ov.isNone with hov | hov
  · have h1 : (Rbacx.Py.isNotNone ov).truthy = false := by rw [truthy_isNotNone, hov]; rfl
    simp only [h1, hov, Bool.false_eq_true, if_false, if_true]
    exact hdef
  · have h1 : (Rbacx.Py.isNotNone ov).truthy = true := by rw [truthy_isNotNone, hov]; rfl
    simp only [h1, hov, if_true, Rbacx.Translated.resolve, bind_ok, Bool.false_eq_true, if_false]
    cases hr : Rbacx.resolve o ov (PyVal.dict kvs) with
    | str v =>
      simp only [truthy_isInstance_str, PyVal.isStr, if_true, containsE_colon, bind_ok, truthy_bool, strO, fstr2, Oracle.pyStr]
      cases v.toList.contains ':' <;> rfl
    | _ => simp only [truthy_isInstance_str, PyVal.isStr, Bool.false_eq_true, if_false]; exact hdef

/-- `_canon_resource(env, override)` never raises on a well-formed env and is the model's `canonResource` -/
theorem canon_resource (o : Oracle) (kvs : List (String × PyVal)) (henv : EnvOk (.dict kvs)) (ov : PyVal) :
    Src.canon_resource o noAttr (.dict kvs) ov = .ok (.str (canonResource o (.dict kvs) ov)) := by
  obtain ⟨d, hd, hdd, hget, hpd, hpget⟩ := getDE_env kvs "resource" henv.resource
  have hdef : (PyE.bind (getDE (.dict kvs) (.str "resource") (.dict [])) fun t5 =>
        let r := (PyVal.por t5 (PyVal.dict []))
        PyE.bind (getE r (.str "type")) fun t6 =>
        let rtype := (PyVal.por t6 (PyVal.str "object"))
        PyE.bind (getE r (.str "id")) fun t7 =>
        let rid := t7
        (Except.ok (if ((Rbacx.Py.isNotNone rid)).truthy then (Rbacx.Py.fstr [(Rbacx.Py.strO o rtype), (PyVal.str ":"), (Rbacx.Py.strO o rid)])
          else (Rbacx.Py.fstr [(Rbacx.Py.strO o rtype), (PyVal.str ":")])) : Except CondErr PyVal)) =
      .ok (.str (if (((PyVal.dict kvs).get "resource").get "id").isNone
        then o.pyStr (PyVal.por (((PyVal.dict kvs).get "resource").get "type") (.str "object")) ++ ":"
        else o.pyStr (PyVal.por (((PyVal.dict kvs).get "resource").get "type") (.str "object")) ++ ":" ++ o.pyStr (((PyVal.dict kvs).get "resource").get "id"))) := by
    simp only [hd, bind_ok, getE_dict _ _ hpd, hpget, truthy_isNotNone, strO, fstr2, fstr3]
    cases (((PyVal.dict kvs).get "resource").get "id").isNone <;> rfl
  unfold Src.canon_resource canonResource
  rcases Bool.eq_false_or_eq_true ov.isNone with hov | hov
  · have h1 : (Rbacx.Py.isNotNone ov).truthy = false := by rw [truthy_isNotNone, hov]; rfl
    simp only [h1, hov, Bool.false_eq_true, if_false, if_true]
    exact hdef
  · have h1 : (Rbacx.Py.isNotNone ov).truthy = true := by rw [truthy_isNotNone, hov]; rfl
    simp only [h1, hov, if_true, Rbacx.Translated.resolve, bind_ok, Bool.false_eq_true, if_false]
    cases hr : Rbacx.resolve o ov (PyVal.dict kvs) with
    | str v =>
      simp only [truthy_isInstance_str, PyVal.isStr, if_true, containsE_colon, bind_ok, truthy_bool, hd, getE_dict d "type" hdd, hget, strO, fstr3,
        Oracle.pyStr]
      cases v.toList.contains ':' <;> rfl
    | _ => simp only [truthy_isInstance_str, PyVal.isStr, Bool.false_eq_true, if_false]; exact hdef

/-! ### stage 3: the branch -/

/-- the caveat contexts the theorems speak about: `context._rebac` and the condition's `ctx` are not non-empty lists / strs (`dict(…)` of
    those — pairs, TypeError, ValueError — is not represented; the model says TypeError) -/
structure CtxOk (env expr : PyVal) : Prop where
  rebac : noSeq ((PyVal.por (env.get "context") (.dict [])).get "_rebac") = true
  localCtx : noSeq (expr.get "ctx") = true

/-- THE tie for C13, on the state of the translation: for EVERY memo state `st` (a dict with any content, or not a dict), every checker
    outcome function `f` (absent / any returned value / raises) and every `rel` expression (str, dict, anything else), one run of the
    branch as the source has it NOW does what `relStep` says with the lookup the MODEL's `relQuery` computes: nothing to ask or nobody
    to ask ⇒ `False`, nobody called (fail closed); memo probed first with the canonical key; on a miss ONE call with the model's
    canonical (subject, relation, resource, merged context); a raise ⇒ `False` (fail closed); the answer stored under the key -/
theorem rel_range_step (o : Oracle) (hf : PyVal → String) (ctx_hash : PyVal → Except CondErr PyVal) (hhash : ∀ c, ctx_hash c = .ok (.str (hf c)))
    (raw : PyVal → PyVal → PyVal → Except CondErr PyVal) (hraw : ∀ r l t, raw r l t = .ok r) (f : Checker) (loop : PyVal)
    (ckvs : List (String × PyVal)) (hrel : PyVal.hasKey (.dict ckvs) "rel" = true) (ekvs : List (String × PyVal)) (henv : EnvOk (.dict ekvs))
    (hctx : CtxOk (.dict ekvs) ((PyVal.dict ckvs).get "rel")) (st : St) :
    Src.rel_range o noAttr ctx_hash raw f loop (.dict ckvs) (.dict ekvs) st =
      relStep hf f (relQuery o ((PyVal.dict ckvs).get "rel") (.dict ekvs)) st := by
  unfold Src.rel_range
  rw [itemE_key ckvs "rel" hrel, bindE_ok]
  obtain ⟨h1, h2⟩ := hctx
  generalize (PyVal.dict ckvs).get "rel" = expr at h2 ⊢
  rw [relQuery_eq]
  cases expr with
  | str s =>
    simp only [truthy_isInstance_str, PyVal.isStr, if_true, canon_subject o ekvs henv, canon_resource o ekvs henv, bindE_ok]
    exact relRest_spec hf ctx_hash hhash raw hraw f loop (.dict ekvs) henv _ s _ .none h1 rfl st
  | dict kvs =>
    simp only [truthy_isInstance_str, truthy_isInstance_dict, PyVal.isStr, PyVal.isDict, Bool.false_eq_true, if_false, if_true,
      getE_dict (.dict kvs) _ rfl, bindE_ok, canon_subject o ekvs henv, canon_resource o ekvs henv, strO]
    exact relRest_spec hf ctx_hash hhash raw hraw f loop (.dict ekvs) henv _ _ _ ((PyVal.dict kvs).get "ctx") h1 h2 st
  | _ => rfl

/-- … and on the image of a MODEL state (`encSt`: a dict memo holding the model's entries under the source's keys, the calls made so far)
    that is the model's memoised `rel` node `evalRelM` — same answer or exception, same memo afterwards, same calls — with the model's
    checker = the truth value of the outcome (`absChecker`).  `hinj`: `_ctx_hash` identifies exactly the contexts `normCtx` identifies.
    So `Rbacx.C13.c13_at_most_once` / `c13_calls_are_memoised` / `c13_memo_transparent` (theorems about `evalRelM` threaded through a
    decision) and `c13_canonical_*` / `c13_fail_closed_*` (about `relQuery` / `evalRel`) speak about the current source of the branch -/
theorem rel_range_model (o : Oracle) (hf : PyVal → String) (hinj : ∀ a b, (hf a == hf b) = (normCtx a == normCtx b))
    (ctx_hash : PyVal → Except CondErr PyVal) (hhash : ∀ c, ctx_hash c = .ok (.str (hf c)))
    (raw : PyVal → PyVal → PyVal → Except CondErr PyVal) (hraw : ∀ r l t, raw r l t = .ok r) (f : Checker) (loop : PyVal)
    (ckvs : List (String × PyVal)) (hrel : PyVal.hasKey (.dict ckvs) "rel" = true) (ekvs : List (String × PyVal)) (henv : EnvOk (.dict ekvs))
    (hctx : CtxOk (.dict ekvs) ((PyVal.dict ckvs).get "rel")) (mst : RelSt) :
    Src.rel_range o noAttr ctx_hash raw f loop (.dict ckvs) (.dict ekvs) (encSt hf mst) =
      (((evalRelM { o := o, env := .dict ekvs, checker := f.map absChecker } ((PyVal.dict ckvs).get "rel") mst).1).map PyVal.bool,
       encSt hf (evalRelM { o := o, env := .dict ekvs, checker := f.map absChecker } ((PyVal.dict ckvs).get "rel") mst).2) := by
  rw [rel_range_step o hf ctx_hash hhash raw hraw f loop ckvs hrel ekvs henv hctx, relStep_model hf hinj]

/-- without a memo (`REL_LOCAL_CACHE.get()` is not a dict), or with an empty one, the answer is the model's PURE `evalRel` -/
theorem rel_range_pure (o : Oracle) (hf : PyVal → String) (ctx_hash : PyVal → Except CondErr PyVal) (hhash : ∀ c, ctx_hash c = .ok (.str (hf c)))
    (raw : PyVal → PyVal → PyVal → Except CondErr PyVal) (hraw : ∀ r l t, raw r l t = .ok r) (f : Checker) (loop : PyVal)
    (ckvs : List (String × PyVal)) (hrel : PyVal.hasKey (.dict ckvs) "rel" = true) (ekvs : List (String × PyVal)) (henv : EnvOk (.dict ekvs))
    (hctx : CtxOk (.dict ekvs) ((PyVal.dict ckvs).get "rel")) (memo : Option (List (PyVal × PyVal))) (hm : memo = Option.none ∨ memo = some [])
    (calls : List (List PyVal)) :
    (Src.rel_range o noAttr ctx_hash raw f loop (.dict ckvs) (.dict ekvs) { memo := memo, calls := calls }).1 =
      (evalRel { o := o, env := .dict ekvs, checker := f.map absChecker } ((PyVal.dict ckvs).get "rel")).map PyVal.bool := by
  rw [rel_range_step o hf ctx_hash hhash raw hraw f loop ckvs hrel ekvs henv hctx]
  unfold relStep evalRel
  simp only [Bind.bind, Except.bind, Pure.pure, Except.pure]
  cases relQuery o ((PyVal.dict ckvs).get "rel") (.dict ekvs) with
  | error e => rfl
  | ok q =>
    cases q with
    | none => rfl
    | some key =>
      cases f with
      | none => rfl
      | some g => rcases hm with rfl | rfl <;> rfl

/-- the checker is consulted at most once per run, and only with the model's canonical key -/
theorem rel_range_calls (o : Oracle) (hf : PyVal → String) (ctx_hash : PyVal → Except CondErr PyVal) (hhash : ∀ c, ctx_hash c = .ok (.str (hf c)))
    (raw : PyVal → PyVal → PyVal → Except CondErr PyVal) (hraw : ∀ r l t, raw r l t = .ok r) (f : Checker) (loop : PyVal)
    (ckvs : List (String × PyVal)) (hrel : PyVal.hasKey (.dict ckvs) "rel" = true) (ekvs : List (String × PyVal)) (henv : EnvOk (.dict ekvs))
    (hctx : CtxOk (.dict ekvs) ((PyVal.dict ckvs).get "rel")) (st : St) :
    (Src.rel_range o noAttr ctx_hash raw f loop (.dict ckvs) (.dict ekvs) st).2.calls = st.calls ∨
      ∃ key, relQuery o ((PyVal.dict ckvs).get "rel") (.dict ekvs) = .ok (some key) ∧ f.isSome = true ∧
        (∀ m, st.memo = some m → memoFind m (encKey hf key) = Option.none) ∧
        (Src.rel_range o noAttr ctx_hash raw f loop (.dict ckvs) (.dict ekvs) st).2.calls = st.calls ++ [encArgs key] := by
  rw [rel_range_step o hf ctx_hash hhash raw hraw f loop ckvs hrel ekvs henv hctx]
  unfold relStep
  cases hq : relQuery o ((PyVal.dict ckvs).get "rel") (.dict ekvs) with
  | error e => exact Or.inl rfl
  | ok q =>
    cases q with
    | none => exact Or.inl rfl
    | some key =>
      cases f with
      | none => exact Or.inl rfl
      | some g =>
        obtain ⟨memo, calls⟩ := st
        cases memo with
        | none => exact Or.inr ⟨key, rfl, rfl, (fun m h => by cases h), rfl⟩
        | some m =>
          cases hfind : memoFind m (encKey hf key) with
          | some v => simp only [hfind]; exact Or.inl trivial
          | none => simp only [hfind]; exact Or.inr ⟨key, rfl, rfl, (fun m' h => by cases h; exact hfind), rfl⟩

/-- COROLLARY: the external parameter `rel_branch` of the translated `eval_condition` instantiated with the TRANSLATED branch (run without
    a memo; its answer only) — on a condition document that is a `rel` node the whole translated evaluator is the model's `evalCond`.
    (For a whole TREE of conditions the same holds node by node; the induction over the document with the translated branch in place of
    `relExt` — it needs `CtxOk` for every `rel` node of the document — is NOT proved here: `eval_condition_rel_leaf` is the partial version.) -/
theorem eval_condition_rel_leaf (cx : CondCtx) (hf : PyVal → String) (ctx_hash : PyVal → Except CondErr PyVal) (hhash : ∀ c, ctx_hash c = .ok (.str (hf c)))
    (raw : PyVal → PyVal → PyVal → Except CondErr PyVal) (hraw : ∀ r l t, raw r l t = .ok r) (f : Checker) (hf' : cx.checker = f.map absChecker) (loop : PyVal)
    (ckvs : List (String × PyVal)) (hrel : PyVal.hasKey (.dict ckvs) "rel" = true) (ekvs : List (String × PyVal)) (he : cx.env = .dict ekvs)
    (henv : EnvOk (.dict ekvs)) (hctx : CtxOk (.dict ekvs) ((PyVal.dict ckvs).get "rel")) (n : Nat) :
    Src.eval_condition cx.o noAttr (parseDtExt cx.o)
        (fun c e => (Src.rel_range cx.o noAttr ctx_hash raw f loop c e { memo := Option.none, calls := [] }).1) (.dict ckvs) cx.env (n + 1) =
      (evalCond cx (condOf (.dict ckvs))).map PyVal.bool := by
  have hcx : cx = { o := cx.o, env := .dict ekvs, checker := f.map absChecker } := by
    cases cx; simp_all
  unfold Src.eval_condition
  simp only [is_strict_e, bind_ok, truthy_pnot, truthy_isInstance_dict, PyVal.isDict, Bool.not_true, Bool.false_eq_true, if_false,
    containsE_key, truthy_bool, hrel, if_true, he]
  rw [rel_range_pure cx.o hf ctx_hash hhash raw hraw f loop ckvs hrel ekvs henv hctx Option.none (Or.inl rfl) []]
  have hc : condOf (.dict ckvs) = .rel ((PyVal.dict ckvs).get "rel") := by
    simp only [condOf, parseCond, hrel, if_true]
  rw [hc, evalCond, ← hcx]

/-! ### stage 4: WHOLE condition trees — the translated `rel` branch (and the translated `_parse_dt`) inside `Src.eval_condition` -/

/-- a non-dict condition is its truth value whatever the externals are -/
theorem eval_condition_lit_any (o : Oracle) (ga : PyVal → PyVal → PyVal → Except CondErr PyVal) (pd rb : PyVal → PyVal → Except CondErr PyVal)
    (c env : PyVal) (n : Nat) (h : c.isDict = false) : Src.eval_condition o ga pd rb c env (n + 1) = .ok (.bool c.truthy) := by
  cases c <;> first | rfl | (simp [PyVal.isDict] at h)

/-- CONGRUENCE on the generated text: `Src.eval_condition` consults its `rel_branch` parameter only on dict sub-documents that have a `rel`
    key, with the env it was given — two parameters that agree there (on every sub-value of the document) give the same evaluation, for
    every budget -/
theorem eval_condition_congr (o : Oracle) (ga : PyVal → PyVal → PyVal → Except CondErr PyVal) (pd rb1 rb2 : PyVal → PyVal → Except CondErr PyVal)
    (env : PyVal) : ∀ (n : Nat) (c : PyVal), allSub (fun d => PyVal.hasKey d "rel" = true → rb1 d env = rb2 d env) c →
      Src.eval_condition o ga pd rb1 c env n = Src.eval_condition o ga pd rb2 c env n := by
  intro n
  induction n with
  | zero => intro c _; rfl
  | succ n ih =>
    intro c hc
    cases c with
    | dict kvs =>
      have hsub : ∀ k, PyVal.hasKey (.dict kvs) k = true →
          allSub (fun d => PyVal.hasKey d "rel" = true → rb1 d env = rb2 d env) ((PyVal.dict kvs).get k) := fun k hk => allSub_get hc hk
      have hitems : ∀ k, PyVal.hasKey (.dict kvs) k = true → ∀ x ∈ Rbacx.Py.iter ((PyVal.dict kvs).get k),
          Src.eval_condition o ga pd rb1 x env n = Src.eval_condition o ga pd rb2 x env n := by
        intro k hk x hx
        rcases allSub_iter (hsub k hk) hx with hnd | hs
        · cases n with
          | zero => rfl
          | succ m => rw [eval_condition_lit_any o ga pd rb1 x env m hnd, eval_condition_lit_any o ga pd rb2 x env m hnd]
        · exact ih x hs
      unfold Src.eval_condition
      simp only [is_strict_e, bind_ok, truthy_pnot, truthy_isInstance_dict, PyVal.isDict, Bool.not_true, Bool.false_eq_true, if_false,
        containsE_key, truthy_bool]
      by_cases hrel : PyVal.hasKey (.dict kvs) "rel" = true
      · simp only [hrel, if_true]
        exact allSub_self hc hrel
      · simp only [hrel, Bool.false_eq_true, if_false]
        congr 1
        by_cases hand : PyVal.hasKey (.dict kvs) "and" = true
        · simp only [hand, if_true, itemE_key kvs "and" hand, bind_ok]
          congr 1
          simp only [iterE]
          cases isIterable ((PyVal.dict kvs).get "and") with
          | false => rfl
          | true => simp only [if_true, bind_ok]; exact allE_congr _ _ _ (hitems "and" hand)
        · simp only [hand, Bool.false_eq_true, if_false]
          by_cases hor : PyVal.hasKey (.dict kvs) "or" = true
          · simp only [hor, if_true, itemE_key kvs "or" hor, bind_ok]
            congr 1
            simp only [iterE]
            cases isIterable ((PyVal.dict kvs).get "or") with
            | false => rfl
            | true => simp only [if_true, bind_ok]; exact anyE_congr _ _ _ (hitems "or" hor)
          · simp only [hor, Bool.false_eq_true, if_false]
            by_cases hnot : PyVal.hasKey (.dict kvs) "not" = true
            · simp only [hnot, if_true, itemE_key kvs "not" hnot, bind_ok, ih _ (hsub "not" hnot)]
            · simp only [hnot, Bool.false_eq_true, if_false]
    | _ => rfl

/-- the translated branch, run from the EMPTY memo of a fresh decision and projected to its answer: the value handed to `Src.eval_condition` as
    its `rel_branch` parameter -/
def relSrc (o : Oracle) (ctx_hash : PyVal → Except CondErr PyVal) (raw : PyVal → PyVal → PyVal → Except CondErr PyVal) (f : Checker) (loop : PyVal) :
    PyVal → PyVal → Except CondErr PyVal :=
  fun c e => (Src.rel_range o noAttr ctx_hash raw f loop c e { memo := some [], calls := [] }).1

/-- THE tie for whole condition TREES: `Src.eval_condition` with its `rel_branch` parameter instantiated with the TRANSLATED branch
    (`Src.rel_range` run from the empty memo, its answer) computes the model's `evalCond cx (condOf cond)`: same truth value, same exception,
    for every document `cond`, every oracle, every checker outcome function `f` (the model's checker is its abstraction `absChecker`), every
    budget above the size.  Hypotheses: the env is one `Guard` builds (`EnvOk`), and every sub-value of the document that has a `rel` key
    carries caveat contexts that are not non-empty lists / strs (`CtxOk`; on `allSub`: a statement about the whole JSON value, more than the
    nodes the evaluator visits); `_ctx_hash` returns a str, resolving an awaitable is the identity on the outcome.  (`_parse_dt` here is still
    the hand-written `parseDtExt`; `Run/C04_eval_condition_closed.lean` replaces it by the translation as well.) -/
theorem eval_condition_rel_tree (cx : CondCtx)
    (hf : PyVal → String) (ctx_hash : PyVal → Except CondErr PyVal) (hhash : ∀ c, ctx_hash c = .ok (.str (hf c)))
    (raw : PyVal → PyVal → PyVal → Except CondErr PyVal) (hraw : ∀ r l t, raw r l t = .ok r) (f : Checker) (hchk : cx.checker = f.map absChecker)
    (loop : PyVal) (ekvs : List (String × PyVal)) (he : cx.env = .dict ekvs) (henv : EnvOk (.dict ekvs)) (cond : PyVal)
    (hctx : allSub (fun d => PyVal.hasKey d "rel" = true → CtxOk (.dict ekvs) (d.get "rel")) cond) (fuel : Nat) (hfuel : cond.size < fuel) :
    Src.eval_condition cx.o noAttr (parseDtExt cx.o) (relSrc cx.o ctx_hash raw f loop) cond cx.env fuel =
      (evalCond cx (condOf cond)).map PyVal.bool := by
  have hcx : cx = { o := cx.o, env := .dict ekvs, checker := f.map absChecker } := by
    cases cx; simp_all
  rw [eval_condition_congr cx.o noAttr (parseDtExt cx.o) (relSrc cx.o ctx_hash raw f loop) (relExt cx) cx.env fuel cond ?_]
  · exact eval_condition cx cond fuel hfuel
  · refine allSub_mono ?_ cond hctx
    intro d hd hrel
    cases d with
    | dict ckvs =>
      have := rel_range_pure cx.o hf ctx_hash hhash raw hraw f loop ckvs hrel ekvs henv (hd hrel) (some []) (Or.inr rfl) []
      simp only [relSrc, relExt, he]
      rw [this, ← hcx]
    | _ => simp [PyVal.hasKey] at hrel

/-
  The STATEFUL statement for whole trees — the memo threaded from one `rel` node of the document to the next, i.e.
    `Src.eval_condition_M … cond env fuel (encSt hf mst) = encOut (evalCondM cx (condOf cond) mst)`
  (answer, memo afterwards, calls, as `rel_range_model` says for one node and `Rbacx.evalCondM` for the tree) — is NOT stated as a theorem:
  the cond plugin's `Src.eval_condition` takes `rel_branch` as a PURE parameter (`PyVal → PyVal → Except CondErr PyVal`), so there is no
  translated term that threads the state; it needs `eval_condition` itself translated state-passing (all(…)/any(…) over a stateful
  generator).  What connects the two today: `rel_range_model` (one node, any memo) + the model-side theorems `Rbacx.C13.c13_memo_transparent`
  (the memoised decision = the pure one for a checker that answers equal lookups equally) and `eval_condition_rel_tree` (the pure one = the
  current source).
-/

end Rbacx.Translated

#print axioms Rbacx.Translated.canon_subject
#print axioms Rbacx.Translated.canon_resource
#print axioms Rbacx.Translated.rel_range_step
#print axioms Rbacx.Translated.rel_range_model
#print axioms Rbacx.Translated.rel_range_pure
#print axioms Rbacx.Translated.rel_range_calls
#print axioms Rbacx.Translated.eval_condition_rel_leaf
#print axioms Rbacx.Translated.eval_condition_congr
#print axioms Rbacx.Translated.eval_condition_rel_tree
