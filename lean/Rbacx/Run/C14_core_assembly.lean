import Rbacx.Generated
import Rbacx.Model.PyAssembly
/-!
  Per-run obligation (C14 "one core", C11 "exactly one … per evaluation", C01): the ASSEMBLY of `Guard._evaluate_core_async` and of the
  API methods around it, over facts read off the CURRENT source text of core/engine.py (plugin `extractors/src_translation_sinks.py`,
  `harness/pytolean_sinks.assembly`):

  * `core_is_the_designated_ranges` — the top-level statement sequence of `_evaluate_core_async` is exactly
    [`start = _now()`; the `engine_env` range (C01_translated); the cache protocol range; the `engine_gate` range (C01_translated); the
    sink block (C11_sinks_translated, which ends with the method's only `return`)], with NO statement outside these ranges;
  * `core_single_exit` — no `return` outside the sink block: every evaluation that hands back a Decision has run the sink block, once
    (the block is straight-line at the top level of the method: no loop, no earlier exit);
  * `sinks_only_in_the_sink_block` — no other place of the class reads `self.metrics` / `self.logger_sink` (no second `inc` on a cache
    hit, no sink call in an API wrapper);
  * `sink_block_inputs_come_from_the_ranges` — the variables the sink block reads are assigned (or mutated in place) only by the range
    that produces them: `d` by the gate, `env` by the env range, `start` by the first statement;
  * `api_one_core` — `evaluate_async`, `evaluate_sync` (both branches: no running loop / helper thread), `is_allowed_sync`,
    `is_allowed_async` have four parameters, account for every call site of the core / of another API method in their text, and on every
    control path hand back the outcome of the core run ONCE on their own four arguments, unchanged (resp. its `.allowed`);
  * `c14_one_core` — hence, for EVERY behaviour of the core, the sync API without a loop, the sync API inside a running loop and the
    async API return the same thing, and `is_allowed_*` its `allowed` field.
  A statement added between the ranges, a sink call elsewhere, an API flavour that post-processes the Decision or calls the core twice
  makes the corresponding `decide` fail.
-/
namespace Rbacx.Translated
open Rbacx Rbacx.PyAsm Rbacx.Generated

theorem core_is_the_designated_ranges :
    Src.core_sequence = ["start", "engine_env", "cache_protocol", "engine_gate", "engine_sinks"] := by decide

theorem core_single_exit : Src.core_returns_outside = 0 := by decide

theorem sinks_only_in_the_sink_block : Src.sink_loads_outside = [] := by decide

theorem sink_block_inputs_come_from_the_ranges :
    Src.core_input_sites.map (·.2) = [["engine_gate"], ["engine_env"], ["start"]] := by decide

/-- every API flavour denotes the core on its own arguments (resp. the `allowed` field of that) -/
theorem api_one_core :
    denotes Src.api_wrappers "evaluate_async" 4 .coreOf = true ∧
    denotes Src.api_wrappers "evaluate_sync" 4 .coreOf = true ∧
    denotes Src.api_wrappers "is_allowed_sync" 4 (fun ps => .field (.coreOf ps) "allowed") = true ∧
    denotes Src.api_wrappers "is_allowed_async" 4 (fun ps => .field (.coreOf ps) "allowed") = true := by decide

/-- the sync API takes both of its branches to the core: one control path without a running loop, one through the helper thread -/
theorem evaluate_sync_two_paths :
    ((lookup Src.api_wrappers "evaluate_sync").map fun w => (paths Src.api_wrappers 8 w.body).length) = some 2 := by decide

/-- **C14 "one core", read off the source text**: for EVERY behaviour `core` of `_evaluate_core_async` (a function from the four request
    objects to a Decision or an exception), every control path of `evaluate_sync` (no loop running / inside a running loop) and of
    `evaluate_async` evaluates to `core` on the method's own four arguments — the same thing — and every path of `is_allowed_sync` /
    `is_allowed_async` to its `allowed` field -/
theorem c14_one_core (core : List String → Except String PyVal) :
    (∃ ws wa, lookup Src.api_wrappers "evaluate_sync" = some ws ∧ lookup Src.api_wrappers "evaluate_async" = some wa ∧
      ws.params = wa.params ∧
      (∀ r ∈ paths Src.api_wrappers 8 ws.body, r.eval core = core ws.params) ∧
      (∀ r ∈ paths Src.api_wrappers 8 wa.body, r.eval core = core wa.params)) ∧
    (∃ ws wa, lookup Src.api_wrappers "is_allowed_sync" = some ws ∧ lookup Src.api_wrappers "is_allowed_async" = some wa ∧
      ws.params = wa.params ∧
      (∀ r ∈ paths Src.api_wrappers 8 ws.body, r.eval core = (core ws.params).map (Rbacx.Py.attr · "allowed")) ∧
      (∀ r ∈ paths Src.api_wrappers 8 wa.body, r.eval core = (core wa.params).map (Rbacx.Py.attr · "allowed"))) := by
  obtain ⟨h1, h2, h3, h4⟩ := api_one_core
  obtain ⟨wa, ha, _, _, hpa⟩ := denotes_sound h1
  obtain ⟨ws, hs, _, _, hps⟩ := denotes_sound h2
  obtain ⟨vs, hvs, _, _, hqs⟩ := denotes_sound h3
  obtain ⟨va, hva, _, _, hqa⟩ := denotes_sound h4
  have e1 : ((lookup Src.api_wrappers "evaluate_sync").map (·.params)) = ((lookup Src.api_wrappers "evaluate_async").map (·.params)) := by decide
  have e2 : ((lookup Src.api_wrappers "is_allowed_sync").map (·.params)) = ((lookup Src.api_wrappers "is_allowed_async").map (·.params)) := by decide
  rw [hs, ha] at e1
  rw [hvs, hva] at e2
  refine ⟨⟨ws, wa, hs, ha, by simpa using e1, fun r hr => hps core r hr, fun r hr => hpa core r hr⟩,
          ⟨vs, va, hvs, hva, by simpa using e2, fun r hr => hqs core r hr, fun r hr => hqa core r hr⟩⟩

end Rbacx.Translated

#print axioms Rbacx.Translated.core_is_the_designated_ranges
#print axioms Rbacx.Translated.core_single_exit
#print axioms Rbacx.Translated.sinks_only_in_the_sink_block
#print axioms Rbacx.Translated.sink_block_inputs_come_from_the_ranges
#print axioms Rbacx.Translated.api_one_core
#print axioms Rbacx.Translated.evaluate_sync_two_paths
#print axioms Rbacx.Translated.c14_one_core
