import Rbacx.Generated
import Rbacx.Model.Locks
/-! Per-run obligation: in every traced scenario no thread waits for another thread while holding the lock. -/
example : (Rbacx.Generated.reloaderPrograms.all fun sc => Rbacx.Locks.LockFreeWhileBlocking sc.2.1 sc.2.2.2 sc.2.2.1) = true := by decide
