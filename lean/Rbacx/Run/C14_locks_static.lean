import Rbacx.Generated
import Rbacx.Proofs.LockProg
import Rbacx.Properties.C14
/-!
  Per-run obligation (C14 "no deadlock"): the lock discipline of `HotReloader` read STATICALLY off the current source text of
  policy/loader.py (plugin `extractors/src_translation_locks.py`, `harness/pytolean_locks.py`) — EVERY control path of `__init__`,
  `check_and_reload` (+ the helper function it submits), `check_and_reload_async`, `_register_error`, `_src_name`, `start`, `stop`,
  `_run_loop`, loops any number of times — not only the scenarios that were traced.

  * `reloader_locks_static_safe` (`decide`): the analysis `LockProg.safe` accepts every API entry point (thread 0), the helper thread's
    function (threads 1, 3) and the polling loop (thread 2), for the kind of lock the source creates (`Src.locks_reentrant`);
    `reloader_waits_ranked` (`decide`): a thread only joins / awaits the result of a thread of higher rank.
  * `StaticRun progs` — thread 0 runs a path of ANY finite sequence of API calls (`__init__`, `check_and_reload`, `start`, `stop`),
    threads 1 / 3 a path of the helper function (or nothing), thread 2 a path of `_run_loop` (or nothing).
  * by the soundness theorem `LockProg.safe_sound`: `reloader_static_condition`, and spelt out `reloader_no_block_under_lock`,
    `reloader_lock_released_on_every_exit`, `reloader_no_reacquire_of_plain_lock`;
  * composed with `Rbacx.C14.c14_no_deadlock`: `reloader_deadlock_free` (every schedule), `reloader_no_lock_during_source_call`.
  * `traced_paths_are_static_paths`: every program the dynamic tracer recorded on this run (`Generated.reloaderPrograms`) IS a path of
    the static programs — the static reading agrees with what CPython did.
-/
namespace Rbacx.Translated
open Rbacx Rbacx.Locks Rbacx.LockProg Rbacx.Generated

/-- what an API caller may call (helper thread id 1) -/
def lockApi : List Prog :=
  [.call (Src.locks_init 1), .call (Src.locks_check_and_reload 1), .call (Src.locks_start 1), .call (Src.locks_stop 1)]

/-- the helper thread of context `h - 1` -/
def lockHelper (h : Nat) : Prog := Src.locks_check_and_reload_helper h

/-- the polling thread (its own helper thread would be 3) -/
def lockPoller : Prog := .call (Src.locks_run_loop 3)

/-! one `decide` per method, so that a failure names the method whose lock discipline is no longer accepted -/
theorem init_locks_safe : safe Src.locks_reentrant (.call (Src.locks_init 1)) = true := by decide
theorem check_and_reload_locks_safe : safe Src.locks_reentrant (.call (Src.locks_check_and_reload 1)) = true := by decide
theorem start_locks_safe : safe Src.locks_reentrant (.call (Src.locks_start 1)) = true := by decide
theorem stop_locks_safe : safe Src.locks_reentrant (.call (Src.locks_stop 1)) = true := by decide
theorem helper_locks_safe : safe Src.locks_reentrant (lockHelper 1) = true ∧ safe Src.locks_reentrant (lockHelper 3) = true := by decide
theorem run_loop_locks_safe : safe Src.locks_reentrant lockPoller = true := by decide

theorem reloader_locks_static_safe :
    lockApi.all (safe Src.locks_reentrant) = true ∧ safe Src.locks_reentrant (lockHelper 1) = true ∧
    safe Src.locks_reentrant lockPoller = true ∧ safe Src.locks_reentrant (lockHelper 3) = true := by
  refine ⟨?_, helper_locks_safe.1, run_loop_locks_safe, helper_locks_safe.2⟩
  simp only [lockApi, List.all_cons, List.all_nil, Bool.and_true, Bool.and_eq_true]
  exact ⟨init_locks_safe, check_and_reload_locks_safe, start_locks_safe, stop_locks_safe⟩

theorem reloader_waits_ranked :
    lockApi.all (allOps (rankOk 0)) = true ∧ allOps (rankOk 1) (lockHelper 1) = true ∧
    allOps (rankOk 2) lockPoller = true ∧ allOps (rankOk 3) (lockHelper 3) = true := by decide

def PathOrIdle (p : Prog) (t : List LOp) : Prop := t = [] ∨ ∃ e, Runs p t e

/-- the threads run paths of the translated source: the caller any finite sequence of API calls -/
structure StaticRun (progs : Nat → List LOp) : Prop where
  caller : ∃ calls : List Prog, (∀ c ∈ calls, c ∈ lockApi) ∧ ∃ e, Runs (apiSeq calls) (progs 0) e
  helper : PathOrIdle (lockHelper 1) (progs 1)
  poller : PathOrIdle lockPoller (progs 2)
  pollerHelper : PathOrIdle (lockHelper 3) (progs 3)
  beyond : ∀ t, 4 ≤ t → progs t = []

/-- **the static condition of `Proofs/Locks.lean` on every path of every thread** (with the lock's kind) -/
theorem reloader_static_condition {progs : Nat → List LOp} (h : StaticRun progs) (t : Nat) :
    SafeFromR Src.locks_reentrant 0 (progs t) = true ∧ Ranked t (progs t) = true := by
  obtain ⟨hs0, hs1, hs2, hs3⟩ := reloader_locks_static_safe
  obtain ⟨hr0, hr1, hr2, hr3⟩ := reloader_waits_ranked
  have idle : ∀ (p : Prog) (tid : Nat) (tr : List LOp), safe Src.locks_reentrant p = true → allOps (rankOk tid) p = true →
      PathOrIdle p tr → SafeFromR Src.locks_reentrant 0 tr = true ∧ Ranked tid tr = true := by
    intro p tid tr hs hr hp
    rcases hp with h0 | ⟨e, hrun⟩
    · subst h0; exact ⟨by simp [SafeFromR], rfl⟩
    · exact ⟨safe_sound hs hrun, ranked_sound hr hrun⟩
  match t with
  | 0 =>
    obtain ⟨calls, hin, e, hrun⟩ := h.caller
    refine ⟨?_, ?_⟩
    · exact apiSeq_paths (P := fun tr => SafeFromR Src.locks_reentrant 0 tr = true) (by simp [SafeFromR])
        (fun a b ha hb => safeFromR_append _ a 0 b ha hb) calls
        (fun c hc tr e' hr => safe_sound (List.all_eq_true.mp hs0 c (hin c hc)) hr) _ _ hrun
    · exact apiSeq_paths (P := fun tr => Ranked 0 tr = true) rfl (fun a b ha hb => ranked_append 0 a b ha hb) calls
        (fun c hc tr e' hr => ranked_sound (List.all_eq_true.mp hr0 c (hin c hc)) hr) _ _ hrun
  | 1 => exact idle _ 1 _ hs1 hr1 h.helper
  | 2 => exact idle _ 2 _ hs2 hr2 h.poller
  | 3 => exact idle _ 3 _ hs3 hr3 h.pollerHelper
  | t + 4 => rw [h.beyond (t + 4) (by omega)]; exact ⟨by simp [SafeFromR], rfl⟩

/-- **no blocking operation under the lock**: wherever a path of any thread joins the polling thread, awaits the helper's result or
    calls into the policy source, the lock depth at that point is 0 -/
theorem reloader_no_block_under_lock {progs : Nat → List LOp} (h : StaticRun progs) (t : Nat) (pre : List LOp) (op : LOp)
    (post : List LOp) (hsplit : progs t = pre ++ op :: post) (hb : blocking op = true) : depthAfter 0 pre = 0 := by
  have := safeFromR_imp _ _ _ (reloader_static_condition h t).1
  rw [hsplit] at this
  exact safeFrom_no_block_held pre 0 op post this hb

/-- **every acquire is released on every exit** (fall through, `return`, exception): the lock depth after any complete path is 0 -/
theorem reloader_lock_released_on_every_exit {progs : Nat → List LOp} (h : StaticRun progs) (t : Nat) :
    depthAfter 0 (progs t) = 0 :=
  safeFrom_final_depth _ 0 (safeFromR_imp _ _ _ (reloader_static_condition h t).1)

/-- if the source creates a plain `threading.Lock`, no path acquires it while holding it -/
theorem reloader_no_reacquire_of_plain_lock (hplain : Src.locks_reentrant = false) {progs : Nat → List LOp} (h : StaticRun progs)
    (t : Nat) (pre post : List LOp) (hsplit : progs t = pre ++ .acq :: post) : depthAfter 0 pre = 0 := by
  have := (reloader_static_condition h t).1
  rw [hplain, hsplit] at this
  exact safeFromR_no_reacquire pre 0 post this

theorem reloader_shape {progs : Nat → List LOp} (h : StaticRun progs) (roots : List Nat)
    (hspawn : ∀ t, t < 4 → SpawnSafe (fun u => roots.contains u) (progs t) = true) :
    LockFreeWhileBlocking 4 progs roots = true := by
  simp only [LockFreeWhileBlocking, List.all_eq_true, List.mem_range, Bool.and_eq_true]
  intro t ht
  exact ⟨⟨safeFromR_imp _ _ _ (reloader_static_condition h t).1, hspawn t ht⟩, (reloader_static_condition h t).2⟩

/-- **deadlock freedom of the translated source**: whatever paths the threads take (`StaticRun`), provided every join / result on them
    is for a thread spawned earlier on the same path or running initially (`hspawn`; `SpawnSafe` is data-dependent in `stop`: the guard
    `if not thread: return`), under EVERY schedule some thread can step as long as a running thread has not finished -/
theorem reloader_deadlock_free {progs : Nat → List LOp} (h : StaticRun progs) (roots : List Nat)
    (hspawn : ∀ t, t < 4 → SpawnSafe (fun u => roots.contains u) (progs t) = true) (sched : List Nat)
    (hlive : ∃ t, ((run (init progs roots) sched).ths t).started = true ∧ ((run (init progs roots) sched).ths t).prog ≠ []) :
    ∃ t, canStep (run (init progs roots) sched) t = true :=
  Rbacx.C14.c14_no_deadlock 4 progs roots (reloader_shape h roots hspawn) h.beyond sched hlive

/-- in every reachable state a thread inside `source.etag()` / `source.load()` does not own the lock -/
theorem reloader_no_lock_during_source_call {progs : Nat → List LOp} (h : StaticRun progs) (roots : List Nat)
    (hspawn : ∀ t, t < 4 → SpawnSafe (fun u => roots.contains u) (progs t) = true) (sched : List Nat) (t : Nat) (p : List LOp)
    (hp : ((run (init progs roots) sched).ths t).prog = .ext :: p) : (run (init progs roots) sched).owner ≠ some t :=
  Rbacx.C14.c14_no_lock_during_source_call 4 progs roots (reloader_shape h roots hspawn) h.beyond sched t p hp

/-! ### the traced programs are paths of the static programs -/

/-- the API calls a traced scenario makes on thread 0 (harness/reloadertrace.py: the constructor, then `check_and_reload` resp.
    `start` + `stop`) -/
def scenarioCalls (name : String) : List Prog :=
  if name = "check_plain" ∨ name = "check_in_loop" then [.call (Src.locks_init 1), .call (Src.locks_check_and_reload 1)]
  else [.call (Src.locks_init 1), .call (Src.locks_start 1), .call (Src.locks_stop 1)]

def idleOrAccepts (p : Prog) (t : List LOp) : Bool := t.isEmpty || accepts 4 p t

def tracedOk (sc : String × Nat × List Nat × (Nat → List LOp)) : Bool :=
  accepts 4 (apiSeq (scenarioCalls sc.1)) (sc.2.2.2 0) && idleOrAccepts (lockHelper 1) (sc.2.2.2 1) &&
  idleOrAccepts lockPoller (sc.2.2.2 2) && (sc.2.2.2 3).isEmpty

theorem traced_ok : reloaderPrograms.all tracedOk = true := by decide

theorem idleOrAccepts_sound {p : Prog} {t : List LOp} (h : idleOrAccepts p t = true) : PathOrIdle p t := by
  simp only [idleOrAccepts, Bool.or_eq_true, List.isEmpty_iff] at h
  rcases h with h | h
  · exact Or.inl h
  · exact Or.inr (accepts_sound h)

/-- **every dynamically traced program of this run is a path of the static reading**: thread 0's operations are a path of the
    scenario's API calls in sequence, the helper's of the helper function, the poller's of `_run_loop` (or the thread never ran) -/
theorem traced_paths_are_static_paths : ∀ sc ∈ reloaderPrograms,
    (∃ calls : List Prog, (∀ c ∈ calls, c ∈ lockApi) ∧ ∃ e, Runs (apiSeq calls) (sc.2.2.2 0) e) ∧
    PathOrIdle (lockHelper 1) (sc.2.2.2 1) ∧ PathOrIdle lockPoller (sc.2.2.2 2) ∧ sc.2.2.2 3 = [] := by
  intro sc hsc
  have h := List.all_eq_true.mp traced_ok sc hsc
  simp only [tracedOk, Bool.and_eq_true, List.isEmpty_iff] at h
  obtain ⟨⟨⟨h0, h1⟩, h2⟩, h3⟩ := h
  refine ⟨⟨scenarioCalls sc.1, ?_, accepts_sound h0⟩, idleOrAccepts_sound h1, idleOrAccepts_sound h2, h3⟩
  intro c hc
  unfold scenarioCalls at hc
  split at hc
  · simp only [List.mem_cons, List.not_mem_nil, or_false] at hc
    rcases hc with h | h <;> subst h <;> simp [lockApi]
  · simp only [List.mem_cons, List.not_mem_nil, or_false] at hc
    rcases hc with h | h | h <;> subst h <;> simp [lockApi]

/-- non-vacuity: a `StaticRun` exists (every thread idle except the caller, who makes no call) -/
example : StaticRun (fun _ => []) :=
  ⟨⟨[], by simp, .norm, .skip⟩, Or.inl rfl, Or.inl rfl, Or.inl rfl, fun _ _ => rfl⟩

end Rbacx.Translated

#print axioms Rbacx.Translated.reloader_locks_static_safe
#print axioms Rbacx.Translated.reloader_waits_ranked
#print axioms Rbacx.Translated.reloader_static_condition
#print axioms Rbacx.Translated.reloader_no_block_under_lock
#print axioms Rbacx.Translated.reloader_lock_released_on_every_exit
#print axioms Rbacx.Translated.reloader_no_reacquire_of_plain_lock
#print axioms Rbacx.Translated.reloader_deadlock_free
#print axioms Rbacx.Translated.reloader_no_lock_during_source_call
#print axioms Rbacx.Translated.traced_paths_are_static_paths
