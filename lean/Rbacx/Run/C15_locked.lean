import Rbacx.Generated
import Rbacx.Model.CacheLock
/-!
  Per-run obligation for C15 (compiled on its own by `./check C15`, never part of the library build):
  the lock-discipline facts extracted from the CURRENT `rbacx/core/cache.py` have the shape that
  `Rbacx.C15.c15_atomic_ops` assumes – every access to `self._data` by every public method of
  `DefaultInMemoryCache` lies inside the method's single `with self._lock:` block – and all four
  methods of the cache interface were found.
-/
open Rbacx.Cache.Lock

example : AllUnderLock Rbacx.Generated.cacheMethods = true := by decide

example : (["clear", "delete", "get", "set"].all fun m => Rbacx.Generated.cacheMethods.any (·.1 == m)) = true := by decide
