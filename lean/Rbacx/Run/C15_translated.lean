import Rbacx.Generated
import Rbacx.Proofs.CacheTranslated
/-!
  Per-run obligation: the BUILT-IN DECISION CACHE as it is written NOW — the methods `get`, `set`, `delete`, `clear` and the helper
  `_purge_expired_unlocked` of `DefaultInMemoryCache` (core/cache.py), translated statement by statement into the state-passing
  functions `Rbacx.Generated.Src.cache_*` by harness/pytolean_methods.py (plugin `extractors/src_translation_cache.py`; the
  OrderedDict operations get their meaning from Model/PyOrdDict.lean) — computes the hand-written model `Rbacx.Cache.step`
  (Model/Cache.lean), the function the theorems `Rbacx.C15.*` are about.

  Statement: for every capacity (also ≤ 0), every model state `d`, key, value, ttl and clock readings, the translated method run on
  the ENCODED state (`encState d`: the entry `⟨k, v, exp⟩` is the pair `(k, _Entry(value=v, expires_at=exp))`, the dataclass instance
  being the record of its two fields) returns the encoding of what `step` returns: the encoded new state, and `encOut` of the
  outcome (`get` returns the value or None — Python cannot tell a stored None from a miss, so `got none` and `got (some None)` have
  the same encoding, every other pair of outcomes is told apart; set/delete/clear return None; `keyError` = a raised KeyError with
  the dict as it is at that moment).  `encState` is injective, so the state component is exact.

  Hypotheses, all visible in the statements: keys are strings (`PyVal.str k`: the signatures say `key: str`); `ttl` is None or an
  int (`encTtl`); the clock readings are integers (the model's exact `Time`; `now + float(ttl)` is then exact in CPython as well);
  for `set` — the only method that runs the purge — the state is a dict, i.e. no key twice (`(keys d).Nodup`; `c15_inv` /
  `step_inv`: every reachable state is).  The purge prefix of the model is the literal of the source (`Src.cache_purge_prefix`).
  `set` reads the clock at two call sites, in the order of the model's `Op.set k v ttl now1 now2`; `get` at one.

  Not covered here: the lock (`with self._lock:` is transparent — C15_locked and `c15_atomic_ops`) and thread interleavings.
-/
namespace Rbacx.Translated
open Rbacx Rbacx.Cache Rbacx.CacheTr Rbacx.PyM Rbacx.Generated

/-- the model configuration the source describes: the capacity is a parameter, the purge prefix is the literal in the source -/
def srcCfg (maxsize : Int) : Cfg := { maxsize := maxsize, purgePrefix := Src.cache_purge_prefix }

/-- the field names the encoding uses are the ones the dataclass `_Entry` declares, in that order -/
theorem cache_entry_fields : Src.cache_entry_fields = ["value", "expires_at"] := rfl

/-- the purge prefix read off the translation is the one the AST extractor (extractors/cache.py) found — the value the harness hands
    to the model driver for the differential runs -/
theorem cache_purge_prefix_agrees : Src.cache_purge_prefix = cachePurgePrefix := rfl

/-- the capacity loop is given enough fuel, whatever its test: it never ends with the out-of-fuel marker -/
theorem cache_loop_fuel (cond : OrdDict → Bool) (s : OrdDict) : (whilePopFirst cond (fuel s) s).2 ≠ some outOfFuel :=
  whilePopFirst_fuel cond _ s (by simp [fuel])

/-- `_purge_expired_unlocked()` with the clock value it reads, on a dict -/
theorem cache_purge (maxsize : Int) (now : Time) (d : List (Entry PyVal)) (hd : (keys d).Nodup) :
    Src.cache_purge_expired_unlocked maxsize now (encState d) = (encState (purge Src.cache_purge_prefix now d), .ret PyVal.none) := by
  unfold Src.cache_purge_expired_unlocked
  simp only [Src.cache_purge_prefix, purge_enc _ now d hd]

/-- `get(key)` -/
theorem cache_get (maxsize : Int) (d : List (Entry PyVal)) (k : String) (now : Time) :
    Src.cache_get maxsize now (encState d) (.str k) = encStep (step (srcCfg maxsize) d (.get k now)) := by
  unfold Src.cache_get
  simp only [odGet_enc, odMoveToEnd_enc, step, encStep]
  cases lookup k d with
  | none => simp [Rbacx.Py.isNone, PyVal.isNone, PyVal.truthy, encOut]
  | some e =>
    simp only [isNone_entryVal, field_expires, field_value, expired_test, odPop_enc, Option.map_some]
    cases expired e.exp now <;> simp [encOut]

/-- `delete(key)` -/
theorem cache_delete (maxsize : Int) (d : List (Entry PyVal)) (k : String) :
    Src.cache_delete maxsize (encState d) (.str k) = encStep (step (srcCfg maxsize) d (.delete k)) := by
  unfold Src.cache_delete
  simp [odPop_enc, step, encStep, encOut]

/-- `clear()` -/
theorem cache_clear (maxsize : Int) (d : List (Entry PyVal)) :
    Src.cache_clear maxsize (encState d) = encStep (step (srcCfg maxsize) d .clear) := by
  unfold Src.cache_clear
  simp [odClear, step, encStep, encOut, encState]

/-- what `set` does once `expires_at` is computed: store, move to the end, evict while above capacity, purge -/
theorem set_tail (maxsize : Int) (d : List (Entry PyVal)) (hd : (keys d).Nodup) (k : String) (v : PyVal) (ttl : Option Int) (now1 now2 : Time) :
    (match odMoveToEnd (odSetItem (encState d) (.str k) (record [("value", v), ("expires_at", encTime (expiry ttl now1))])) (.str k) with
      | none => (odSetItem (encState d) (.str k) (record [("value", v), ("expires_at", encTime (expiry ttl now1))]), PyM.Outcome.raised "KeyError")
      | some data =>
        match whilePopFirst (fun data => (gt (.int (odLen data)) (.int maxsize)).truthy) (fuel data) data with
        | (data, some exc) => (data, PyM.Outcome.raised exc)
        | (data, none) =>
          match Src.cache_purge_expired_unlocked maxsize now2 data with
          | (data, PyM.Outcome.raised exc) => (data, PyM.Outcome.raised exc)
          | (data, PyM.Outcome.ret _) => (data, PyM.Outcome.ret PyVal.none))
      = encStep (step (srcCfg maxsize) d (.set k v ttl now1 now2)) := by
  have hn : (keys (evictLoop maxsize (inserted d k v ttl now1))).Nodup :=
    (nodup_inserted k v ttl now1 hd).sublist (keys_sublist (evictLoop_sublist _ _))
  simp only [setItem_moveToEnd_enc, step, encStep, srcCfg]
  rw [show remove k d ++ [⟨k, v, expiry ttl now1⟩] = inserted d k v ttl now1 from rfl, whilePopFirst_enc]
  by_cases hm : maxsize < 0
  · simp [hm, encOut, encState]
  · simp only [hm, ↓reduceIte, cache_purge maxsize now2 _ hn, encOut]

/-- `set(key, value, ttl)` with its two clock readings, on a dict -/
theorem cache_set (maxsize : Int) (d : List (Entry PyVal)) (hd : (keys d).Nodup) (k : String) (v : PyVal) (ttl : Option Int) (now1 now2 : Time) :
    Src.cache_set maxsize now1 now2 (encState d) (.str k) v (encTtl ttl) = encStep (step (srcCfg maxsize) d (.set k v ttl now1 now2)) := by
  unfold Src.cache_set
  simp only [ttl_test]
  cases ttl with
  | none =>
    simp only [Bool.false_eq_true, ↓reduceIte]
    exact set_tail maxsize d hd k v none now1 now2
  | some t =>
    by_cases ht : 0 < t
    · simp only [ht, decide_true, ↓reduceIte, expiry_pos t now1 ht]
      exact set_tail maxsize d hd k v (some t) now1 now2
    · simp only [ht, decide_false, Bool.false_eq_true, ↓reduceIte]
      have he : expiry (some t) now1 = none := by simp [expiry, ht]
      have h := set_tail maxsize d hd k v (some t) now1 now2
      rw [he] at h
      exact h

/-- the source as a step function on the Python state: one translated method per model operation, arguments encoded -/
def srcStep (maxsize : Int) (s : OrdDict) : Op PyVal → OrdDict × PyM.Outcome
  | .get k now => Src.cache_get maxsize now s (.str k)
  | .set k v ttl now1 now2 => Src.cache_set maxsize now1 now2 s (.str k) v (encTtl ttl)
  | .delete k => Src.cache_delete maxsize s (.str k)
  | .clear => Src.cache_clear maxsize s

/-- **The translated source computes the model's `step`**, for every capacity, every dict `d` and every operation. -/
theorem cache_step_translated (maxsize : Int) (d : List (Entry PyVal)) (hd : (keys d).Nodup) (op : Op PyVal) :
    srcStep maxsize (encState d) op = encStep (step (srcCfg maxsize) d op) := by
  cases op with
  | get k now => exact cache_get maxsize d k now
  | set k v ttl now1 now2 => exact cache_set maxsize d hd k v ttl now1 now2
  | delete k => exact cache_delete maxsize d k
  | clear => exact cache_clear maxsize d

/-- run a history on the Python state with the translated methods: the dict at the end and the outcome of every call -/
def srcRunFrom (maxsize : Int) (s : OrdDict) : List (Op PyVal) → OrdDict × List PyM.Outcome
  | [] => (s, [])
  | op :: ops =>
    let r := srcStep maxsize s op
    let rs := srcRunFrom maxsize r.1 ops
    (rs.1, r.2 :: rs.2)

/-- **Whole histories.** From the empty dict the translated methods go through exactly the (encoded) states and outcomes of the model's
    `run` / `trace` — the objects `c15_inv`, `c15_refines_map`, `c15_get_latest`, `c15_evict_only_lru`, `c15_trace_ok` speak about;
    no hypothesis is left: the empty dict has no key twice and `step` keeps it so. -/
theorem cache_run_translated (maxsize : Int) (ops : List (Op PyVal)) :
    srcRunFrom maxsize [] ops = (encState (run (srcCfg maxsize) ops), (trace (srcCfg maxsize) ops).map fun o => encOut o.out) := by
  suffices h : ∀ d : List (Entry PyVal), Inv (srcCfg maxsize) d →
      srcRunFrom maxsize (encState d) ops
        = (encState (runFrom (srcCfg maxsize) d ops), (traceFrom (srcCfg maxsize) d ops).map fun o => encOut o.out) from
    h [] (inv_nil _)
  induction ops with
  | nil => intro d _; rfl
  | cons op ops ih =>
    intro d hd
    simp only [srcRunFrom, cache_step_translated maxsize d hd.nodup op, encStep, ih _ (step_inv _ hd op), runFrom, traceFrom,
      List.map_cons]

/-- not vacuous: capacity 1, two sets and two gets evaluated through the TRANSLATED methods — the second set evicts `a` -/
example : (srcRunFrom 1 [] [.set "a" (.int 1) none 0 0, .set "b" (.int 2) (some 5) 0 0, .get "a" 1, .get "b" 4, .get "b" 5]).1.map (·.1) = []
    ∧ ((srcRunFrom 1 [] [.set "a" (.int 1) none 0 0, .set "b" (.int 2) (some 5) 0 0, .get "a" 1, .get "b" 4]).2.map
        fun o => match o with | .ret (.int n) => some n | _ => none) = [none, none, none, some 2] := by
  constructor <;> rfl

end Rbacx.Translated

#print axioms Rbacx.Translated.cache_purge_prefix_agrees
#print axioms Rbacx.Translated.cache_loop_fuel
#print axioms Rbacx.Translated.cache_purge
#print axioms Rbacx.Translated.cache_get
#print axioms Rbacx.Translated.cache_set
#print axioms Rbacx.Translated.cache_delete
#print axioms Rbacx.Translated.cache_clear
#print axioms Rbacx.Translated.cache_step_translated
#print axioms Rbacx.Translated.cache_run_translated
