import Rbacx.Generated
import Rbacx.Proofs.FileStoreTranslated
import Rbacx.Properties.C16
set_option linter.unusedSimpArgs false
open Rbacx Rbacx.FileSrc Rbacx.FileSrc.Sim Rbacx.Generated

/-- the translated `atomic_write` run over the model's file system: externals = the model's primitives under the world's fault -/
def awRun (e : AWEnv) (cls : String) (dirname : PyVal → PyVal) (data encoding : PyVal) (fs0 : FS) (fault : Fault) : PyW.Res MW Unit :=
  Src.fs_atomic_write (mkstemp := mkstempP e cls) (os_fdopen := fdopenP e cls) (file_write := writeP e cls) (file_close := closeP e cls)
    (os_replace := replaceP e cls) (os_unlink := unlinkP e cls) (os_path_dirname := dirname) (path := .str e.target) (data := data)
    (encoding := encoding) () ⟨⟨fs0, none⟩, fault, false⟩

macro "aw_sim" : tactic => `(tactic|
  (simp [awRun, Src.fs_atomic_write, mkstempP, fdopenP, writeP, closeP, replaceP, unlinkP, prim, theFd, theFile, outcomeOf, Rbacx.PyT.unpack,
      Rbacx.PyT.iterable, Rbacx.Py.iter, locOf_tmp, locOf_target, PyW.catches_fnf,
      canonical, runSteps, execOp, partialOp, runClean, cleanupSteps, Region.handlers, Fault.pred, rename, unlink, AWEnv.path,
      fsGet_appendChunk, fsGet_createTemp, fsGet_fsSet, fsGet_fsDel, *]))

/-- **`atomic_write` as written = the model's run of the canonical program, under every fault.**  For every old file system, every
    text, every fault — none, the process killed after `n` complete calls and `k` bytes of the next (`crashAfter n k`), call `n` raising
    an exception of class `cls` after `k` bytes (`raiseAt n k`), every `n`, `k`, `cls` — the translated source text, its six external
    calls read as the model's primitives on the paths the code passes, leaves the model state and ends (returned / raised / killed)
    exactly as `runSteps` on `canonical .outside [0]` does.  The one proviso: the class injected AT THE `os.unlink` CALL of a run in
    which nothing else failed is not FileNotFoundError — the code swallows that class there (that is its reading of "already gone"),
    so such a "fault" is no fault. -/
theorem atomic_write_eq_runSteps (e : AWEnv) (fs0 : FS) (hne : e.tmp ≠ e.target) (s : String)
    (hdata : e.data = [textBytes s]) (fault : Fault) (cls : String) (hcls : ∀ k, fault = .raiseAt 5 k → cls ≠ "FileNotFoundError")
    (dirname : PyVal → PyVal) (encoding : PyVal) :
    ((awRun e cls dirname (.str s) encoding fs0 fault).world.st, outcomeOf (awRun e cls dirname (.str s) encoding fs0 fault)) =
      runSteps e ⟨fs0, none⟩ (canonical .outside [0]) fault := by
  have hne' : ¬ e.target = e.tmp := fun h => hne h.symm
  cases fault with
  | none => aw_sim
  | crashAfter n k => rcases n with _ | _ | _ | _ | _ | _ | n <;> aw_sim
  | raiseAt n k =>
    rcases n with _ | _ | _ | _ | _ | _ | n
    · aw_sim
    · aw_sim
    · aw_sim
    · aw_sim
    · aw_sim
    · have := hcls k rfl
      aw_sim
    · aw_sim

/-- when the translated run ends with an exception (the process alive), its class is the injected fault's class: no call of the
    canonical sequence fails by itself, and the FileNotFoundError of the final `os.unlink` after a successful replace is swallowed -/
theorem atomic_write_raises_fault_class (e : AWEnv) (fs0 : FS) (hne : e.tmp ≠ e.target) (s : String)
    (hdata : e.data = [textBytes s]) (fault : Fault) (cls : String) (dirname : PyVal → PyVal) (encoding : PyVal) (c : String)
    (h : (awRun e cls dirname (.str s) encoding fs0 fault).out = .error c) : c = cls := by
  have hne' : ¬ e.target = e.tmp := fun h => hne h.symm
  revert h
  cases fault with
  | none => aw_sim
  | crashAfter n k => rcases n with _ | _ | _ | _ | _ | _ | n <;> aw_sim
  | raiseAt n k =>
    rcases n with _ | _ | _ | _ | _ | _ | n <;> aw_sim <;> (try (intro h; exact h.symm))
    all_goals (split <;> simp <;> (try (intro h; exact h.symm)))

/-! ### the C16 theorems about `atomic_write`, for the source text -/

/-- **All or nothing, for the source text**: after the translated `atomic_write` has run over the model's file system under any
    fault (a kill at any instant, any call raising, partial writes / flushes included), the target is the old file or the complete new one -/
theorem src_all_or_nothing (e : AWEnv) (fs0 : FS) (hne : e.tmp ≠ e.target) (hfresh : fsGet fs0 e.tmp = none) (s : String)
    (hdata : e.data = [textBytes s]) (fault : Fault) (cls : String) (hcls : ∀ k, fault = .raiseAt 5 k → cls ≠ "FileNotFoundError")
    (dirname : PyVal → PyVal) (encoding : PyVal) :
    fsGet (awRun e cls dirname (.str s) encoding fs0 fault).world.st.fs e.target = fsGet fs0 e.target ∨
    fsGet (awRun e cls dirname (.str s) encoding fs0 fault).world.st.fs e.target = some ⟨textBytes s, e.now⟩ := by
  have h := atomic_write_eq_runSteps e fs0 hne s hdata fault cls hcls dirname encoding
  have h1 := congrArg (·.1) h
  simp only at h1
  rw [h1]
  have := Rbacx.C16.c16_all_or_nothing e fs0 (canonical .outside [0]) wellShaped_canonical0 hne hfresh fault
  simpa [Rbacx.C16.targetAfter, Rbacx.C16.newFile, writeIdxs, canonical, newContent, hdata] using this

/-- **A failed write leaves no temp file, for the source text** (a killed writer exempt, as in `c16_failure_leaves_no_temp`) -/
theorem src_failure_leaves_no_temp (e : AWEnv) (fs0 : FS) (hne : e.tmp ≠ e.target) (hfresh : fsGet fs0 e.tmp = none) (s : String)
    (hdata : e.data = [textBytes s]) (fault : Fault) (hf : fault.isCrash = false) (cls : String)
    (hcls : ∀ k, fault = .raiseAt 5 k → cls ≠ "FileNotFoundError") (dirname : PyVal → PyVal) (encoding : PyVal) :
    fsGet (awRun e cls dirname (.str s) encoding fs0 fault).world.st.fs e.tmp = none := by
  have h := atomic_write_eq_runSteps e fs0 hne s hdata fault cls hcls dirname encoding
  have h1 := congrArg (·.1) h
  simp only at h1
  rw [h1]
  exact Rbacx.C16.c16_failure_leaves_no_temp e fs0 (canonical .outside [0]) wellShaped_canonical0 hne hfresh fault hf

/-- without fault the translated function returns, the target is the complete new file, no temp file remains -/
theorem src_success_writes_new (e : AWEnv) (fs0 : FS) (hne : e.tmp ≠ e.target) (hfresh : fsGet fs0 e.tmp = none) (s : String)
    (hdata : e.data = [textBytes s]) (cls : String) (dirname : PyVal → PyVal) (encoding : PyVal) :
    outcomeOf (awRun e cls dirname (.str s) encoding fs0 .none) = .ok ∧
    fsGet (awRun e cls dirname (.str s) encoding fs0 .none).world.st.fs e.target = some ⟨textBytes s, e.now⟩ ∧
    fsGet (awRun e cls dirname (.str s) encoding fs0 .none).world.st.fs e.tmp = none := by
  have h := atomic_write_eq_runSteps e fs0 hne s hdata .none cls (by intro k hk; cases hk) dirname encoding
  have h1 := congrArg (·.1) h
  have h2 := congrArg (·.2) h
  simp only at h1 h2
  rw [h1, h2]
  have := Rbacx.C16.c16_success_writes_new e fs0 (canonical .outside [0]) wellShaped_canonical0 hne hfresh
  simpa [Rbacx.C16.targetAfter, Rbacx.C16.newFile, writeIdxs, canonical, newContent, hdata] using this

/-- the temp file is asked for in the target's directory: the `dir=` argument of `mkstemp` is `os.path.dirname(path) or "."`
    (stated on a world that records the keyword arguments of the first call) -/
theorem mkstemp_in_target_directory (dirname : PyVal → PyVal) (path data encoding : PyVal) :
    (Src.fs_atomic_write (W := List (String × PyVal)) (mkstemp := fun _ kw _ => (kw, .error "stop")) (os_fdopen := fun _ _ w => (w, .error "x"))
      (file_write := fun _ _ w => (w, .error "x")) (file_close := fun _ _ w => (w, .error "x")) (os_replace := fun _ _ w => (w, .error "x"))
      (os_unlink := fun _ _ w => (w, .error "x")) (os_path_dirname := dirname) (path := path) (data := data) (encoding := encoding) () []).world
      = [("prefix", .str ".rbacx.tmp."), ("dir", PyVal.por (dirname path) (.str "."))] := by
  simp [Src.fs_atomic_write]

#print axioms atomic_write_eq_runSteps
#print axioms atomic_write_raises_fault_class
#print axioms src_all_or_nothing
#print axioms src_failure_leaves_no_temp
#print axioms src_success_writes_new
#print axioms mkstemp_in_target_directory
