import Rbacx.Generated
/-!
  Per-run obligation for C16 (compiled on its own by `./check C16`): the step list traced from the real
  `atomic_write` of the current working tree has the shape the general theorems of
  `Rbacx/Properties/C16.lean` are about, and writes the whole data exactly once.
-/
open Rbacx.FileSrc

example : WellShaped Rbacx.Generated.atomicWriteProgram = true := by decide
example : WritesAllOnce Rbacx.Generated.atomicWriteProgram = true := by decide
