import Rbacx.Generated
import Rbacx.Proofs.FileStoreTranslated
import Rbacx.Properties.C16
/-!
  Per-run obligation for C16 (compiled on its own by `./check C16`): `FilePolicySource._stat_sig / _ensure_content_sha / etag / load`
  as the source has them NOW (`Rbacx.Generated.Src.fs_*`, world-passing: harness/pytolean_world.py, Model/PyWorld.lean) are the model
  functions `ensureSha` / `etag` / `load` of Model/FileSource.lean that the theorems `Rbacx.C16.c16_etag_* / c16_load_is_disk /
  c16_mtime_mode / …` are about — for every cache state, every outcome of `os.stat` (a file / FileNotFoundError / another exception),
  every outcome of `_hash_file`, both `include_mtime_in_etag` modes, every world.
-/
set_option linter.unusedSimpArgs false
set_option linter.unusedVariables false
open Rbacx Rbacx.FileSrc Rbacx.FileSrc.Enc Rbacx.Generated

/-- the model's cache state as the two attributes -/
def encState (st : SrcState String) : Src.FilePolicySource_state :=
  { cached_stat_sig := encSig st.cachedSig, cached_sha := encSha st.cachedSha }

variable {W : Type}

/-! ### `_stat_sig` -/

theorem stat_sig_eq (so : StatOut) (mt path : PyVal) (s : Src.FilePolicySource_state) (w : W) :
    Src.fs_stat_sig (os_stat := statE so mt) (self_path := path) s w =
      ⟨w, s, match so with
             | .file f => .ok (encSig (some f.sig))
             | .missing => .error "FileNotFoundError"
             | .fails cls => .error cls⟩ := by
  cases so <;> simp [Src.fs_stat_sig, statE, statRecord, encSig, File.sig, Rbacx.Py.attr, PyVal.get, PyVal.lookup]

/-! ### `_ensure_content_sha` -/

/-- **`_ensure_content_sha` = `ensureSha`**: `os.stat` shows the disk (a file, or FileNotFoundError for none), `_hash_file()` returns the
    tag of the content on disk: the translated method leaves the cache attributes and returns exactly what the model says — from
    every cache state -/
theorem ensure_content_sha_eq (cfg : SrcCfg String Doc) (disk : Option File) (st : SrcState String) (mt path : PyVal) (w : W) :
    Src.fs_ensure_content_sha (os_stat := statE (match disk with | some f => .file f | none => .missing) mt)
        (hash_file := constE (match disk with | some f => .ok (.str (cfg.sha f.content)) | none => .error "FileNotFoundError"))
        (self_path := path) (encState st) w =
      ⟨w, encState (ensureSha cfg disk st).1, .ok (encEnsure (ensureSha cfg disk st).2)⟩ := by
  obtain ⟨csig, csha⟩ := st
  cases disk with
  | none => simp [Src.fs_ensure_content_sha, stat_sig_eq, encState, ensureSha, PyW.catches_fnf, encSig, encSha, encEnsure]
  | some f =>
    simp only [Src.fs_ensure_content_sha, stat_sig_eq, encState, constE, miss_test]
    rcases csig with _ | sg <;> rcases csha with _ | h
    · simp [ensureSha, encSha, encSig, encEnsure]
    · simp [ensureSha, encSha, encSig, encEnsure]
    · simp [ensureSha, encSha, encSig, encEnsure]
    · by_cases hs : sg = f.sig
      · simp [ensureSha, encSha, encEnsure, hs]
      · simp [ensureSha, encSha, encSig, encEnsure, hs]

/-- an exception of `os.stat` other than FileNotFoundError leaves `_ensure_content_sha` with the cache attributes untouched -/
theorem ensure_content_sha_stat_fails (cls : String) (hcls : cls ≠ "FileNotFoundError") (hash : PyW.Ext W) (mt path : PyVal)
    (s : Src.FilePolicySource_state) (w : W) :
    Src.fs_ensure_content_sha (os_stat := statE (.fails cls) mt) (hash_file := hash) (self_path := path) s w = ⟨w, s, .error cls⟩ := by
  simp [Src.fs_ensure_content_sha, stat_sig_eq, PyW.catches_fnf, hcls]

/-- an exception of `_hash_file()` (ANY class — FileNotFoundError included: the file vanished between `stat` and `open`) leaves
    `_ensure_content_sha` with the cache attributes untouched, when the hash is needed at all (no hit); on a hit it is not called -/
theorem ensure_content_sha_hash_fails (f : File) (st : SrcState String) (cls : String) (mt path : PyVal) (w : W) :
    Src.fs_ensure_content_sha (os_stat := statE (.file f) mt) (hash_file := constE (.error cls)) (self_path := path) (encState st) w =
      (if st.cachedSig = some f.sig ∧ st.cachedSha.isSome then
        ⟨w, encState st, .ok (.list [encSha st.cachedSha, encSig (some f.sig)])⟩
       else ⟨w, encState st, .error cls⟩) := by
  obtain ⟨csig, csha⟩ := st
  simp only [Src.fs_ensure_content_sha, stat_sig_eq, encState, constE, miss_test]
  rcases csha with _ | h
  · simp
  · by_cases hs : csig = some f.sig
    · simp [hs, encSha]
    · simp [hs]

/-! ### `etag` -/

/-- **`etag()` = the model's `etag`**, the f-string included (`encETag`: `None` / the digest / `f"{sha}:{mtime_ns}"`) -/
theorem etag_eq (cfg : SrcCfg String Doc) (disk : Option File) (st : SrcState String) (mt path : PyVal) (w : W) :
    Src.fs_etag (os_stat := statE (match disk with | some f => .file f | none => .missing) mt)
        (hash_file := constE (match disk with | some f => .ok (.str (cfg.sha f.content)) | none => .error "FileNotFoundError"))
        (self_path := path) (self_include_mtime_in_etag := .bool cfg.includeMtime) (encState st) w =
      ⟨w, encState (etag cfg disk st).1, .ok (encETag (etag cfg disk st).2)⟩ := by
  simp only [Src.fs_etag, ensure_content_sha_eq cfg disk st mt path w, etag]
  rcases h : ensureSha cfg disk st with ⟨st', _ | ⟨hh, sg⟩⟩
  · simp [encEnsure, Rbacx.PyT.unpack, Rbacx.PyT.iterable, Rbacx.Py.iter, Rbacx.Py.isNone, PyVal.isNone, PyVal.truthy, encETag]
  · obtain ⟨a, b⟩ := sg
    cases hm : cfg.includeMtime <;>
      simp [encEnsure, Rbacx.PyT.unpack, Rbacx.PyT.iterable, Rbacx.Py.iter, Rbacx.Py.isNone, Rbacx.Py.isNotNone, PyVal.isNone, PyVal.truthy,
        Rbacx.Py.pand, encETag, encSig, Rbacx.PyW.item, fstr_etag]

/-- exceptions leave `etag()` as they leave `_ensure_content_sha`, cache attributes untouched -/
theorem etag_stat_fails (cls : String) (hcls : cls ≠ "FileNotFoundError") (hash : PyW.Ext W) (mt path inc : PyVal)
    (s : Src.FilePolicySource_state) (w : W) :
    Src.fs_etag (os_stat := statE (.fails cls) mt) (hash_file := hash) (self_path := path) (self_include_mtime_in_etag := inc) s w =
      ⟨w, s, .error cls⟩ := by
  simp [Src.fs_etag, ensure_content_sha_stat_fails cls hcls]

theorem etag_hash_fails (f : File) (st : SrcState String) (hmiss : ¬ (st.cachedSig = some f.sig ∧ st.cachedSha.isSome)) (cls : String)
    (mt path inc : PyVal) (w : W) :
    Src.fs_etag (os_stat := statE (.file f) mt) (hash_file := constE (.error cls)) (self_path := path) (self_include_mtime_in_etag := inc)
      (encState st) w = ⟨w, encState st, .error cls⟩ := by
  have h := ensure_content_sha_hash_fails f st cls mt path w
  rw [if_neg hmiss] at h
  simp only [encState] at h
  simp [Src.fs_etag, encState, h]

/-- the rendering of tags is injective on digests that contain no `:` (hex digests): different model tags are different strings -/
theorem encETag_none_iff (t : Option (ETag String)) : encETag t = PyVal.none ↔ t = none := by
  rcases t with _ | ⟨h, _ | m⟩ <;> simp [encETag]

/-! ### `load` -/

/-- `open(path, "r", encoding="utf-8")` on a disk state -/
def openE (disk : Option File) : PyW.Ext W := fun _ _ w =>
  (w, match disk with | some _ => .ok Rbacx.FileSrc.Sim.theFile | none => .error "FileNotFoundError")

/-- `f.read()`: the text of the content on disk -/
def readE (textOf : Content → PyVal) (disk : Option File) : PyW.Ext W := fun _ _ w =>
  (w, match disk with | some f => .ok (textOf f.content) | none => .error "ValueError")

/-- `parse_policy_text(text, filename=p)`: the model's parser oracle on the content the text stands for, by the format the FILENAME
    HINT selects (`formatOfPath`: what `_detect_format` computes — `Run/C17_translated.lean`) -/
def parseE (cfg : SrcCfg String (Except String PyVal)) (contentOf : PyVal → Content) : PyW.Ext W := fun args kw w =>
  (w, match args, kw with
      | [t], [("filename", .str p)] => cfg.parse (formatOfPath p) (contentOf t)
      | _, _ => .error "TypeError")

/-- **`load()` = the model's `load`**: the parse — by the format the path selects — of the content on disk at that moment, with the
    path as the filename hint; FileNotFoundError when there is no file; then, iff `validate_schema`, `validate_policy(policy)`, whose
    exception propagates; parse errors propagate; the cache attributes are not touched -/
theorem load_eq (cfg : SrcCfg String (Except String PyVal)) (disk : Option File) (textOf : Content → PyVal) (contentOf : PyVal → Content)
    (hinv : ∀ c, contentOf (textOf c) = c) (validate : PyVal → Except String PyVal) (vs : Bool)
    (s : Src.FilePolicySource_state) (w : W) :
    Src.fs_load (file_open := openE disk) (file_read := readE textOf disk) (file_close := constE (.ok PyVal.none))
        (parse_policy_text := parseE cfg contentOf) (validate_policy := fun args _ w => (w, validate (args.headD PyVal.none)))
        (self_path := .str cfg.path) (self_validate_schema := .bool vs) s w =
      ⟨w, s, match load cfg disk with
             | none => .error "FileNotFoundError"
             | some (.error cls) => .error cls
             | some (.ok doc) => if vs then (match validate doc with | .ok _ => .ok doc | .error cls => .error cls) else .ok doc⟩ := by
  cases disk with
  | none => simp [Src.fs_load, openE, load]
  | some f =>
    simp only [Src.fs_load, openE, readE, constE, parseE, load, hinv, Option.map_some]
    cases hp : cfg.parse (formatOfPath cfg.path) f.content with
    | error cls => simp
    | ok doc =>
      cases vs
      · simp [PyVal.truthy]
      · cases hv : validate doc <;> simp [PyVal.truthy, hv]

/-- exceptions propagate, for ANY outcomes of the five calls: the result of `load()` is determined by them as written here (a failing
    `read` still closes the file; a failing `close` replaces the exception in flight), and the cache attributes are not touched -/
theorem load_outcomes (oOpen oRead oClose oParse oValidate : Except String PyVal) (path vs : PyVal) (s : Src.FilePolicySource_state) (w : W) :
    Src.fs_load (file_open := constE oOpen) (file_read := constE oRead) (file_close := constE oClose) (parse_policy_text := constE oParse)
        (validate_policy := constE oValidate) (self_path := path) (self_validate_schema := vs) s w =
      ⟨w, s, match oOpen with
             | .error c => .error c
             | .ok _ =>
               match oRead, oClose with
               | _, .error c => .error c
               | .error c, .ok _ => .error c
               | .ok _, .ok _ =>
                 match oParse with
                 | .error c => .error c
                 | .ok p => if vs.truthy then (match oValidate with | .ok _ => .ok p | .error c => .error c) else .ok p⟩ := by
  cases oOpen <;> cases oRead <;> cases oClose <;> cases oParse <;> cases oValidate <;> simp [Src.fs_load, constE] <;> split <;> simp

/-! ### the C16 theorems about the file source, for the source text

  `srcStep` is one `etag()` / `load()` of the TRANSLATED source on a disk state; by the equalities above it is the model's `step`, so
  every theorem of `Rbacx.C16` about `etag` / `load` / `trace` speaks about the translated source.  Two of them restated directly: -/

/-- the translated `etag()` on a disk state, from a cache state of the model -/
def srcEtag (cfg : SrcCfg String Doc) (disk : Option File) (st : SrcState String) : PyW.Res Unit Src.FilePolicySource_state :=
  Src.fs_etag (os_stat := statE (match disk with | some f => .file f | none => .missing) PyVal.none)
    (hash_file := constE (match disk with | some f => .ok (.str (cfg.sha f.content)) | none => .error "FileNotFoundError"))
    (self_path := .str cfg.path) (self_include_mtime_in_etag := .bool cfg.includeMtime) (encState st) ()

/-- **unchanged file ⇒ equal tags, for the source text**: a second `etag()` on the same disk state, from the cache the first left, returns the same value -/
theorem src_etag_stable (cfg : SrcCfg String Doc) (disk : Option File) (st : SrcState String) :
    (srcEtag cfg disk (etag cfg disk st).1).out = (srcEtag cfg disk st).out := by
  simp only [srcEtag, etag_eq]
  have := Rbacx.C16.c16_etag_stable cfg disk st [.etag] (by simp [FOp.isRead]) disk (etag cfg disk (etag cfg disk st).1).2
    (by simp [trace, step])
  rw [this]

/-- **mtime mode, for the source text**: with `include_mtime_in_etag`, the value returned for a file is `f"{sha}:{mtime_ns}"` of the
    file on disk whenever the cache satisfies the invariant (after every history within the proviso: `c16_cache_invariant`) -/
theorem src_etag_truthful (cfg : SrcCfg String Doc) (last : Option File) (disk : Option File) (st : SrcState String)
    (hinv : CacheInv cfg last st)
    (hp : ∀ f f', last = some f → disk = some f' → f.content ≠ f'.content → f.size ≠ f'.size ∨ f.mtime ≠ f'.mtime) :
    (srcEtag cfg disk st).out = .ok (encETag (trueTag cfg disk)) := by
  simp only [srcEtag, etag_eq]
  rw [(etag_truthful cfg last disk st hinv hp).1]

#print axioms stat_sig_eq
#print axioms ensure_content_sha_eq
#print axioms ensure_content_sha_stat_fails
#print axioms ensure_content_sha_hash_fails
#print axioms etag_eq
#print axioms etag_stat_fails
#print axioms etag_hash_fails
#print axioms load_eq
#print axioms load_outcomes
#print axioms src_etag_stable
#print axioms src_etag_truthful
