import Rbacx.Generated
import Rbacx.Proofs.CliTranslated
import Rbacx.Run.C17_translated
/-!
  Per-run obligation (C17): the parser dispatch of store/policy_loader.py (`_parse_yaml`, `parse_policy_text`, `parse_policy_bytes`) and the
  command functions of cli.py (`_read_text_from_path_or_stdin`, `_load_policy_from_arg`, `_lint_doc`, `_validate_doc`, `cmd_lint`,
  `cmd_validate`, `cmd_check`) as they are written NOW — translated into `Rbacx.Generated.Src.*` by harness/pytolean_cli.py — compute the
  model's `parseYaml` / `parsePolicyText` / `parsePolicyBytes` / `cliLoad` / `cliValidatePhase` / `cliRun` (Model/Tools.lean), for EVERY
  outcome of every external collaborator: the theorems quantify over the functions `open_read`, `stdin_read`, `bytes_decode`, `json_loads`,
  `import_yaml`, `yaml_safe_load`, `_parse_require_attrs`, `validate_policy`, `analyze_policy`, `analyze_policyset` (each returns a value or
  the exception that escapes the call), over the document, and over the Namespace.  `_detect_format` is instantiated with
  `Src.detect_format`, which `Run/C17_translated.lean` proves equal to the model's `detectFormat`.
  Hypothesis of the command-function theorems: the `policy` attribute of the Namespace is a `str` or absent/`None` (what argparse makes of
  `--policy`).
-/
namespace Rbacx.Translated
open Rbacx Rbacx.Py Rbacx.PyX Rbacx.Generated PyVal

/-! ### store/policy_loader.py -/

theorem parse_yaml_eq (P : Parsers) (text : PyVal) :
    Src.parse_yaml text P.importYaml P.yamlSafeLoad = parseYaml P text := by
  unfold Src.parse_yaml parseYaml
  cases P.importYaml with
  | error e =>
    simp only [bind_error, tryCatch_error_cons, tryCatch_error_nil, catches_one]
    cases isSubclass e.cls "Exception" <;> simp
  | ok v =>
    simp only [bind_ok, tryCatch_ok, thenFlow_next]
    cases P.yamlSafeLoad text with
    | error e => rfl
    | ok d => cases d <;> rfl

theorem fmtVal_json (f : Format) : (Py.eq (fmtVal f) (PyVal.str "json")).truthy = (f == .json) := by
  cases f <;> rfl

theorem parse_policy_text_eq (P : Parsers) (text : PyVal) (fmt ct fn : Option String) :
    Src.parse_policy_text text (optToVal fn) (optToVal ct) (optToVal fmt) Src.detect_format P.jsonLoads P.importYaml P.yamlSafeLoad =
      parsePolicyText P text fmt ct fn := by
  unfold Src.parse_policy_text parsePolicyText
  simp only [detect_format, fmtVal_json, parse_yaml_eq]
  cases detectFormat fmt ct fn <;> rfl

theorem parse_policy_bytes_eq (P : Parsers) (decode : PyVal → PyVal → Res) (data encoding : PyVal) (fmt ct fn : Option String) :
    Src.parse_policy_bytes data (optToVal fn) (optToVal ct) (optToVal fmt) encoding Src.detect_format decode P.jsonLoads P.importYaml
        P.yamlSafeLoad = parsePolicyBytes P decode data encoding fmt ct fn := by
  unfold Src.parse_policy_bytes parsePolicyBytes
  cases decode data encoding with
  | error e => rfl
  | ok t => simp only [bind_ok, parse_policy_text_eq]

/-! ### cli.py: reading and parsing the input -/

theorem load_policy_from_arg_eq (w : CliWorld) (path : Option String) :
    Src.load_policy_from_arg (optToVal path) Src.detect_format w.openRead w.stdinRead w.parsers.jsonLoads w.parsers.importYaml
        w.parsers.yamlSafeLoad = cliLoad w path := by
  unfold Src.load_policy_from_arg Src.read_text_from_path_or_stdin cliLoad
  have hnone : ∀ text, Src.parse_policy_text text PyVal.none PyVal.none PyVal.none Src.detect_format w.parsers.jsonLoads w.parsers.importYaml
      w.parsers.yamlSafeLoad = parsePolicyText w.parsers text Option.none Option.none Option.none :=
    fun text => parse_policy_text_eq w.parsers text Option.none Option.none Option.none
  cases path with
  | none =>
    have h0 : (Py.pand (optToVal Option.none) (Py.ne (optToVal Option.none) (PyVal.str "-"))).truthy = false := rfl
    simp only [h0, Bool.false_eq_true, if_false]
    cases w.stdinRead with
    | error e => rfl
    | ok t => simp only [bind_ok, hnone]
  | some p =>
    have e0 : optToVal (some p) = PyVal.str p := rfl
    have h0 : (Py.pand (PyVal.str p) (Py.ne (PyVal.str p) (PyVal.str "-"))).truthy = (p != "" && p != "-") := by
      simp only [Py.pand, truthy_str, Py.ne, pyEq, bne]
      cases h1 : (p == "") <;> cases h2 : (p == "-") <;> simp_all [PyVal.truthy]
    simp only [e0, h0]
    cases (p != "" && p != "-") with
    | false =>
      simp only [Bool.false_eq_true, if_false]
      cases w.stdinRead with
      | error e => rfl
      | ok t => simp only [bind_ok, hnone]
    | true =>
      simp only [if_true]
      cases w.openRead (PyVal.str p) with
      | error e => rfl
      | ok t =>
        simp only [bind_ok]
        exact parse_policy_text_eq w.parsers t Option.none Option.none (some p)

/-! ### cli.py: `_validate_doc`, `_lint_doc` -/

theorem validate_doc_spec (validate : PyVal → Res) (doc ps : PyVal) :
    ValidateSpec (cliValidatePhase validate ps.truthy doc) (Src.validate_doc doc ps validate) := by
  unfold Src.validate_doc cliValidatePhase cliValidated
  cases hps : ps.truthy with
  | true =>
    simp only [if_true]
    cases PyX.getE doc "policies" with
    | error e => simp [ValidateSpec]
    | ok p =>
      simp only [bind_ok]
      cases iterE (PyVal.por p (PyVal.list [])) with
      | error e => simp [ValidateSpec]
      | ok ds =>
        simp only [bind_ok]
        refine forEnum_spec validate (fun e i => PyVal.dict [("message", PyVal.str e.msg), ("policy_index", PyVal.int i)]) _
          (fun acc i d => ?_) ds
        cases validate d with
        | ok v => simp
        | error e =>
          simp only [bind_error, tryCatch_error_cons, tryCatch_error_nil, catches_one, escapesValidation]
          by_cases h1 : isSubclass e.cls "RuntimeError" = true <;> by_cases h2 : isSubclass e.cls "Exception" = true <;> simp [h1, h2, PyX.append]
  | false =>
    simp only [Bool.false_eq_true, if_false, cliVerdicts, ValidateSpec]
    cases validate doc with
    | ok v => exact ⟨[], by simp, rfl⟩
    | error e =>
      simp only [bind_error, tryCatch_error_cons, tryCatch_error_nil, catches_one, escapesValidation]
      by_cases h1 : isSubclass e.cls "RuntimeError" = true <;> by_cases h2 : isSubclass e.cls "Exception" = true <;> simp [h1, h2]

theorem lint_doc_eq (w : CliWorld) (doc ps req : PyVal) :
    Src.lint_doc doc ps req w.lintPolicy w.lintSet = (if ps.truthy then w.lintSet doc req else w.lintPolicy doc req) := rfl

/-- the lint phase of `cmd_lint` / `cmd_check`: `_lint_doc`, `list(issues)`, `--strict` -/
theorem lint_tail_eq (w : CliWorld) (doc req strictV psV : PyVal) :
    (PyX.bind (Src.lint_doc doc psV req w.lintPolicy w.lintSet) fun t3 =>
      PyX.bind (PyX.listE t3) fun t4 =>
        if (Py.pand (PyVal.bool strictV.truthy) t4).truthy then (.ok (PyVal.int 3) : Res) else .ok (PyVal.int 0)) =
      encExit (cliLintPhase w strictV.truthy psV.truthy doc req) := by
  rw [lint_doc_eq]
  unfold cliLintPhase
  cases (if psV.truthy = true then w.lintSet doc req else w.lintPolicy doc req) with
  | error e => rfl
  | ok issues =>
    simp only [bind_ok, listE]
    cases iterE issues with
    | error e => rfl
    | ok l =>
      simp only [bind_ok]
      cases hs : strictV.truthy <;> cases l <;> simp [Py.pand, PyVal.truthy, encExit, EXIT_LINT_ERRORS, EXIT_OK]

/-! ### cli.py: the command functions -/

theorem truthy_bool_truthy (v : PyVal) : (PyVal.bool v.truthy).truthy = v.truthy := rfl

theorem cmd_lint_eq (w : CliWorld) (args : PyVal) (path : Option String) (hpath : PyX.getattrD args "policy" PyVal.none = optToVal path) :
    Src.cmd_lint args Src.detect_format w.openRead w.stdinRead w.parsers.jsonLoads w.parsers.importYaml w.parsers.yamlSafeLoad
        w.parseRequireAttrs w.lintPolicy w.lintSet =
      encExit (cliRun .lint w (cliFlag args "strict") (cliFlag args "policyset") path (PyX.getattrD args "require_attrs" PyVal.none)) := by
  unfold Src.cmd_lint cliRun cliFlag
  rw [hpath, load_policy_from_arg_eq]
  cases w.parseRequireAttrs (PyX.getattrD args "require_attrs" PyVal.none) with
  | error e => rfl
  | ok req =>
    simp only [bind_ok]
    cases cliLoad w path with
    | error e => rfl
    | ok doc =>
      simp only [bind_ok]
      exact lint_tail_eq w doc req (PyX.getattrD args "strict" (PyVal.bool false)) (PyX.getattrD args "policyset" (PyVal.bool false))

theorem cmd_validate_eq (w : CliWorld) (args : PyVal) (path : Option String) (hpath : PyX.getattrD args "policy" PyVal.none = optToVal path) :
    Src.cmd_validate args Src.detect_format w.openRead w.stdinRead w.parsers.jsonLoads w.parsers.importYaml w.parsers.yamlSafeLoad
        w.validate =
      encExit (cliRun .validate w (cliFlag args "strict") (cliFlag args "policyset") path (PyX.getattrD args "require_attrs" PyVal.none)) := by
  unfold Src.cmd_validate cliRun cliLoadValidate cliFlag
  rw [hpath, load_policy_from_arg_eq]
  cases cliLoad w path with
  | error e =>
    simp only [bind_error, tryCatch_error_cons, tryCatch_error_nil, catches_one]
    by_cases h1 : isSubclass e.cls "RuntimeError" = true <;> simp [h1, encExit, EXIT_ENV]
  | ok doc =>
    simp only [bind_ok]
    have hv := validate_doc_spec w.validate doc (PyX.getattrD args "policyset" (PyVal.bool false))
    unfold ValidateSpec at hv
    cases hm : cliValidatePhase w.validate (PyX.getattrD args "policyset" (PyVal.bool false)).truthy doc with
    | error e =>
      rw [hm] at hv
      simp only [hv, bind_error, tryCatch_error_cons, tryCatch_error_nil, catches_one]
      by_cases h1 : isSubclass e.cls "RuntimeError" = true <;> simp [h1, encExit, EXIT_ENV]
    | ok vs =>
      rw [hm] at hv
      obtain ⟨errs, h1, h2⟩ := hv
      simp only [h1, bind_ok, tryCatch_ok, thenFlow_next, Py.pnot, PyVal.truthy, Bool.not_not, h2, encExit]
      by_cases h3 : vs.all id = true <;> simp [h3, EXIT_OK, EXIT_SCHEMA_ERRORS]

theorem cmd_check_eq (w : CliWorld) (args : PyVal) (path : Option String) (hpath : PyX.getattrD args "policy" PyVal.none = optToVal path) :
    Src.cmd_check args Src.detect_format w.openRead w.stdinRead w.parsers.jsonLoads w.parsers.importYaml w.parsers.yamlSafeLoad
        w.parseRequireAttrs w.validate w.lintPolicy w.lintSet =
      encExit (cliRun .check w (cliFlag args "strict") (cliFlag args "policyset") path (PyX.getattrD args "require_attrs" PyVal.none)) := by
  unfold Src.cmd_check cliRun cliFlag
  rw [hpath, load_policy_from_arg_eq]
  cases w.parseRequireAttrs (PyX.getattrD args "require_attrs" PyVal.none) with
  | error e => rfl
  | ok req =>
    simp only [bind_ok]
    cases cliLoad w path with
    | error e => rfl
    | ok doc =>
      simp only [bind_ok]
      have hv := validate_doc_spec w.validate doc (PyVal.bool (PyX.getattrD args "policyset" (PyVal.bool false)).truthy)
      unfold ValidateSpec at hv
      rw [truthy_bool_truthy] at hv
      cases hm : cliValidatePhase w.validate (PyX.getattrD args "policyset" (PyVal.bool false)).truthy doc with
      | error e =>
        rw [hm] at hv
        simp only [hv, bind_error, tryCatch_error_cons, tryCatch_error_nil, catches_one]
        by_cases h1 : isSubclass e.cls "RuntimeError" = true <;> simp [h1, encExit, EXIT_ENV]
      | ok vs =>
        rw [hm] at hv
        obtain ⟨errs, h1, h2⟩ := hv
        have ht : (PyVal.list errs).truthy = !(vs.all id) := by rw [Py.truthy_list, h2]
        simp only [h1, bind_ok, tryCatch_ok, thenFlow_next, ht]
        have := lint_tail_eq w doc req (PyX.getattrD args "strict" (PyVal.bool false)) (PyVal.bool (PyX.getattrD args "policyset" (PyVal.bool false)).truthy)
        rw [truthy_bool_truthy] at this
        by_cases h3 : vs.all id = true
        · simp only [h3, Bool.not_true, Bool.false_eq_true, if_false, if_true]
          exact this
        · simp [h3, encExit, EXIT_SCHEMA_ERRORS]

/-! ### cli.py: `main` -/

theorem cli_main_eq (buildParser : Res) (parseArgs callFunc : PyVal → Res) (argv : PyVal) :
    Src.cli_main argv buildParser parseArgs callFunc = cliMain buildParser parseArgs callFunc argv := by
  unfold Src.cli_main cliMain
  cases buildParser with
  | error e => rfl
  | ok parser =>
    simp only [bind_ok]
    cases parseArgs argv with
    | error e =>
      simp only [bind_error, tryCatch_error_cons, tryCatch_error_nil, catches_one]
      by_cases h1 : isSubclass e.cls "SystemExit" = true
      · simp only [h1, if_true, Bool.true_and]
        have hc : (Py.pand (Py.eq e.code (PyVal.int 0)) (Py.pand argv (Py.anyOf argv fun a =>
            Py.contains (PyVal.list [PyVal.str "-v", PyVal.str "--version"]) a))).truthy =
            (pyEq e.code (PyVal.int 0) && (argv.truthy && ((Py.iter argv).any fun a => pyEq (PyVal.str "-v") a || pyEq (PyVal.str "--version") a))) := by
          simp only [Py.pand, Py.eq, Py.anyOf, contains_list, List.any_cons, List.any_nil, Bool.or_false, truthy_bool]
          by_cases h2 : pyEq e.code (PyVal.int 0) = true
          · by_cases h3 : argv.truthy = true
            · simp [h2, h3, truthy_bool]
            · simp [h2, h3]
          · simp [h2, truthy_bool]
        rw [hc]
        by_cases h4 : (pyEq e.code (PyVal.int 0) && (argv.truthy && ((Py.iter argv).any fun a =>
            pyEq (PyVal.str "-v") a || pyEq (PyVal.str "--version") a))) = true
        · simp [h4, EXIT_OK]
        · simp [h4]
      · simp [h1]
    | ok args =>
      simp only [bind_ok, tryCatch_ok, thenFlow_next, Py.pnot, truthy_bool]
      by_cases h1 : PyX.hasattr args "func" = true
      · simp only [h1, Bool.not_true, Bool.false_eq_true, if_false]
        cases callFunc args with
        | error e => rfl
        | ok rc =>
          simp only [bind_ok]
          cases PyX.intE rc with
          | ok code => rfl
          | error e =>
            simp only [bind_error, tryCatch_error_cons, tryCatch_error_nil, catches_one]
            by_cases h2 : isSubclass e.cls "Exception" = true <;> simp [h2, EXIT_OK]
      · simp [h1, EXIT_USAGE]

end Rbacx.Translated

#print axioms Rbacx.Translated.parse_policy_text_eq
#print axioms Rbacx.Translated.parse_policy_bytes_eq
#print axioms Rbacx.Translated.load_policy_from_arg_eq
#print axioms Rbacx.Translated.validate_doc_spec
#print axioms Rbacx.Translated.cmd_lint_eq
#print axioms Rbacx.Translated.cmd_validate_eq
#print axioms Rbacx.Translated.cmd_check_eq
#print axioms Rbacx.Translated.cli_main_eq
