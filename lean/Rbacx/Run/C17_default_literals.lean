import Rbacx.Generated
/-! Per-run obligation (C17): the default-algorithm LITERALS read from the source text of `lint.analyze_policy`, `policy.evaluate`,
    `policyset.decide`, `compiler.compile` (`… .get("algorithm") or "<literal>"`, plugin src_translation_cli) agree with the defaults obtained
    by PROBING the behaviour of the same four functions (plugin consts): two independent extractions of the constants the model takes. -/
example : Rbacx.Generated.defaultLiterals = Rbacx.Generated.consts := by decide
