import Rbacx.Generated
import Rbacx.Properties.C17
/-! Per-run obligation: the four default algorithms extracted from /repo are all deny-overrides. -/
example : Rbacx.C17.DefaultsUniform Rbacx.Generated.consts := by decide
