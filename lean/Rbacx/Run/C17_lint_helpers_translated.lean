import Rbacx.Run.C17_lint_translated
import Rbacx.Proofs.TargetTranslated
/-!
  Per-run obligation (C17, the linter's helpers): the CURRENT source text of `_first_applicable_unreachable` (translated by
  harness/pytolean_lint.py, `_actions` and `_resource_covers` as parameters) and of `_resource_covers` (translated by
  harness/pytolean.py, early-return `items()` loop) computes what the model says — `Lint.firstApplicableUnreachableG acts cov` for every
  `acts`, `cov`; `Lint.resourceCovers o` for every oracle and every pair of rules — and, composed with `analyze_policy_eq`, the translated
  `analyze_policy` / `analyze_policyset` WITH THE TRANSLATED HELPERS plugged in equal the model with the model helpers (`_actions` stays a
  parameter).  A file of its own (imports `Run/C17_lint_translated.lean`): a helper that leaves the translatable subset fails this
  obligation only.
-/
open Rbacx Rbacx.Generated Rbacx.PyLn Rbacx.Lint Rbacx.LintT Rbacx.Py

namespace Rbacx.C17Lint

theorem first_applicable_unreachable_eq (o : Oracle) (acts : PyVal → PyVal) (cov : PyVal → PyVal → PyVal) (e l : PyVal) :
    Src.lint_first_applicable_unreachable o acts cov e l = Lint.firstApplicableUnreachableG acts cov e l := by
  have il : ∀ v, Py.iter (PyLn.setOf v) = Py.iter v := fun _ => rfl
  simp only [Src.lint_first_applicable_unreachable, firstApplicableUnreachableG, Py.ne, effectOf, Py.get, truthy_bool, PyLn.issubset,
    truthy_pnot, il]
  rfl

theorem resource_covers_eq (o : Oracle) (e l : PyVal) :
    Src.lint_resource_covers o e l = .bool (Lint.resourceCovers o e l) := by
  simp only [Src.lint_resource_covers]
  generalize hE : PyVal.por (Py.get e "resource") (PyVal.dict []) = er
  generalize hL : PyVal.por (Py.get l "resource") (PyVal.dict []) = lr
  generalize h1 : Py.get er "type" = et
  generalize h2 : Py.get lr "type" = lt
  generalize h3 : Py.get er "id" = eid
  generalize h4 : Py.get lr "id" = lid
  generalize h5 : PyVal.por (Py.get er "attrs") (PyVal.por (Py.get er "attributes") (PyVal.dict [])) = eattrs
  generalize h6 : PyVal.por (Py.get lr "attrs") (PyVal.por (Py.get lr "attributes") (PyVal.dict [])) = lattrs
  have hm : Lint.resourceCovers o e l = coversV o et lt eid lid eattrs lattrs := by
    subst h1 h2 h3 h4 h5 h6 hE hL; rfl
  rw [hm]
  clear hm h1 h2 h3 h4 h5 h6 hE hL
  have fin : ∀ (X : PyVal) (b : Bool), X = .bool b →
      (if (Py.pand (Py.pnot (Py.contains (PyVal.list [PyVal.none, PyVal.str "*"]) et)) (Py.ne (Py.strO o et) (Py.strO o lt))).truthy = true
        then PyVal.bool false
        else if (Py.isNotNone eid).truthy = true then
          Py.eq (Py.strO o eid) (if (Py.isNone lid).truthy = true then PyVal.none else Py.strO o lid)
        else X)
      = .bool (if (!(PyVal.pyEq .none et || PyVal.pyEq (.str "*") et) && o.pyStr et != o.pyStr lt) = true then false
          else if (!eid.isNone) = true then (if lid.isNone = true then false else o.pyStr eid == o.pyStr lid) else b) := by
    intro X b hX
    subst hX
    have hsn : ∀ s : String, PyVal.pyEq (.str s) .none = false := fun _ => rfl
    by_cases hc1 : (PyVal.none.pyEq et || (PyVal.str "*").pyEq et) = true <;>
    by_cases hc2 : (o.pyStr et == o.pyStr lt) = true <;>
    by_cases hi : eid.isNone = true <;>
    by_cases hl : lid.isNone = true <;>
    simp [hc1, hc2, hi, hl, Py.pand, Py.ne, Py.eq, Py.isNone, Py.isNotNone, strO, contains_list, truthy_pnot, truthy_bool, pyEq_str, bne, hsn]
  simp only [coversV]
  cases eattrs <;> cases lattrs
  case dict.dict ekvs lkvs =>
    rw [forItemsRet_all ekvs _ (fun key v => (PyVal.lookup key lkvs).isSome && ((PyVal.lookup key lkvs).getD PyVal.none).pyEq v)]
    · have hd : (PyVal.por (Py.pnot (Py.isInstance (PyVal.dict ekvs) "dict")) (Py.pnot (Py.isInstance (PyVal.dict lkvs) "dict"))).truthy = false := rfl
      simp only [hd, Bool.false_eq_true, if_false]
      have hb : ∀ b : Bool, (if b = true then PyVal.bool true else PyVal.bool false) = PyVal.bool b := by
        intro b; cases b <;> rfl
      exact fin _ _ (hb _)
    · intro key v
      by_cases hs : (PyVal.lookup key lkvs).isSome = true <;>
      by_cases hp : ((PyVal.lookup key lkvs).getD PyVal.none).pyEq v = true <;>
      simp [hs, hp, contains_dict_key, truthy_bool, getV, PyVal.hasKey, PyVal.get, pnot, Py.ne]
  all_goals
    first
    | exact fin _ true (by simp [PyVal.por, Py.pnot, Py.isInstance, PyVal.isDict, PyVal.truthy])
    | skip

/-- the model's parameters with the MODEL helpers `resourceCovers` / `firstApplicableUnreachableG` (`_actions` and the first pass arbitrary) -/
def envWhole (o : Oracle) (acts : PyVal → PyVal) (F : PyVal → PyVal → PyVal → PyVal → PyVal → List PyVal) : Lint.Env :=
  envOf o acts (Lint.firstApplicableUnreachableG acts fun a b => .bool (Lint.resourceCovers o a b)) (fun a b => .bool (Lint.resourceCovers o a b)) F

private theorem helpers_eq (o : Oracle) (acts : PyVal → PyVal) :
    Src.lint_resource_covers o = (fun a b => PyVal.bool (Lint.resourceCovers o a b)) ∧
    Src.lint_first_applicable_unreachable o acts (Src.lint_resource_covers o)
      = Lint.firstApplicableUnreachableG acts fun a b => .bool (Lint.resourceCovers o a b) := by
  have h1 : Src.lint_resource_covers o = (fun a b => PyVal.bool (Lint.resourceCovers o a b)) := by
    funext a b; exact resource_covers_eq o a b
  refine ⟨h1, ?_⟩
  funext e l
  rw [first_applicable_unreachable_eq, h1]

/-- `analyze_policy` as written, calling `_first_applicable_unreachable` and `_resource_covers` as written = the model with the model helpers -/
theorem analyze_policy_with_helpers_eq (o : Oracle) (acts : PyVal → PyVal)
    (F : PyVal → PyVal → PyVal → PyVal → PyVal → List PyVal) (policy ra : PyVal) :
    Src.lint_analyze_policy o acts (Src.lint_first_applicable_unreachable o acts (Src.lint_resource_covers o)) (Src.lint_resource_covers o)
        (fun a b c d e => .list (F a b c d e)) policy ra
      = .list (Lint.analyzePolicy (envWhole o acts F) policy ra) := by
  rw [(helpers_eq o acts).2, (helpers_eq o acts).1]
  exact analyze_policy_eq o acts _ _ F policy ra

theorem analyze_policyset_with_helpers_eq (o : Oracle) (acts : PyVal → PyVal)
    (F : PyVal → PyVal → PyVal → PyVal → PyVal → List PyVal) (policyset ra : PyVal) :
    Src.lint_analyze_policyset o acts (Src.lint_first_applicable_unreachable o acts (Src.lint_resource_covers o)) (Src.lint_resource_covers o)
        (fun a b c d e => .list (F a b c d e)) policyset ra
      = .list (Lint.analyzePolicyset (envWhole o acts F) policyset ra) := by
  rw [(helpers_eq o acts).2, (helpers_eq o acts).1]
  exact analyze_policyset_eq o acts _ _ F policyset ra

end Rbacx.C17Lint

#print axioms Rbacx.C17Lint.first_applicable_unreachable_eq
#print axioms Rbacx.C17Lint.resource_covers_eq
#print axioms Rbacx.C17Lint.analyze_policy_with_helpers_eq
#print axioms Rbacx.C17Lint.analyze_policyset_with_helpers_eq
