import Rbacx.Generated
import Rbacx.Proofs.LintTranslated
/-!
  Per-run obligation (C17, the linter's algorithm-dependent analysis): the CURRENT source text of `analyze_policy` and
  `analyze_policyset` (dsl/lint.py), translated by harness/pytolean_lint.py into `Rbacx.Generated.Src.lint_analyze_policy` /
  `Src.lint_analyze_policyset`, computes exactly what the model `Rbacx.Lint.analyzePolicy` / `Rbacx.Lint.analyzePolicyset`
  (Model/Lint.lean) says, with the default-algorithm constant "deny-overrides" — for EVERY policy / policy-set document, every
  `require_attrs`, every first pass `F` (the external statement range: an arbitrary function of the five variables it reads) and
  every helper function `_actions` / `_first_applicable_unreachable` / `_resource_covers`.

  The property theorems `Rbacx.C17.c17_lint_default`, `c17_lint_set_children_independent`, `c17_lint_overlap_iff` are about that model.
  No enumeration: the loops are discharged by the generic loop lemmas of Proofs/LintTranslated.lean (`forStep_collect`,
  `forStep_brk_if`, `pass_unreachable`, `pass_deny`), the rest is case analysis on the shape of `rules` and on the algorithm string.

  (`.get` on a non-dict is `None` in the translation and the model alike, where CPython raises AttributeError: the statement is about
  documents whose rules / children are dicts, as everywhere.)
-/
open Rbacx Rbacx.Generated Rbacx.PyLn Rbacx.Lint Rbacx.LintT

namespace Rbacx.C17Lint

/-- the model's parameters for given helper functions and a given first pass (the external range reads `rules, issues, id_counts,
    req, rid_counts` — `issues`, `id_counts`, `rid_counts` are `[]`, `{}`, `{}` where the range starts) -/
def envOf (o : Oracle) (acts : PyVal → PyVal) (unr cov : PyVal → PyVal → PyVal)
    (F : PyVal → PyVal → PyVal → PyVal → PyVal → List PyVal) : Lint.Env :=
  { o := o, dflt := "deny-overrides", acts := acts, cov := cov, unr := unr,
    firstPass := fun req rules => F rules (.list []) (.dict []) req (.dict []) }

private theorem tb (b : Bool) : (PyVal.bool b).truthy = b := rfl

/-- the `require_attrs` configuration -/
theorem req_eq (policy ra : PyVal) :
    (let req := ra
     let req := if (Py.isNone req).truthy = true then
        (if (Py.isInstance (PyVal.por (Py.get policy "lint") (PyVal.dict [])) "dict").truthy = true then
          Py.get (PyVal.por (Py.get policy "lint") (PyVal.dict [])) "require_attrs" else PyVal.none) else req
     if (Py.isNone req).truthy = true then PyVal.dict [] else req) = lintReq policy ra := by
  simp only [lintReq, Py.isNone, Py.isInstance, Py.get, tb]

/-- `analyze_policy` as written = the model -/
theorem analyze_policy_eq (o : Oracle) (acts : PyVal → PyVal) (unr cov : PyVal → PyVal → PyVal)
    (F : PyVal → PyVal → PyVal → PyVal → PyVal → List PyVal) (policy ra : PyVal) :
    Src.lint_analyze_policy o acts unr cov (fun a b c d e => .list (F a b c d e)) policy ra
      = .list (Lint.analyzePolicy (envOf o acts unr cov F) policy ra) := by
  have hreq := req_eq policy ra
  simp only [] at hreq
  simp only [Src.lint_analyze_policy, Lint.analyzePolicy, envOf, hreq]
  rw [show Lint.rulesOf policy = PyVal.por (Py.get policy "rules") (PyVal.list []) from rfl]
  generalize PyVal.por (Py.get policy "rules") (PyVal.list []) = rules
  cases rules with
  | list rs =>
    have hl : (Py.pnot (Py.isInstance (PyVal.list rs) "list")).truthy = false := rfl
    generalize ha : Py.lower (Py.strO o (PyVal.por (Py.get policy "algorithm") (PyVal.str "deny-overrides"))) = algoV
    have hv : algoV = .str (lintAlgorithm o "deny-overrides" policy) := ha ▸ rfl
    subst hv
    generalize lintAlgorithm o "deny-overrides" policy = algo
    have he : ∀ s : String, ((Py.eq (.str algo) (.str s)).truthy = true) = (algo = s) := by
      intro s; simp [Py.eq, PyVal.pyEq, PyVal.truthy]
    simp only [hl, Bool.false_eq_true, if_false, he, overlapIssues]
    by_cases h1 : algo = "first-applicable"
    · subst h1
      have hne : ("first-applicable" = "deny-overrides") = False := by decide
      simp only [if_true, hne, if_false, pass_unreachable, List.append_nil]
    · by_cases h2 : algo = "deny-overrides"
      · subst h2
        have hne : ("deny-overrides" = "first-applicable") = False := by decide
        simp only [if_true, hne, if_false, pass_deny, List.nil_append]
      · simp only [h1, h2, if_false, List.append_nil]
  | _ => rfl

/-- `analyze_policyset` as written = the model: every child analysed on its own by `analyze_policy`, its issues copied and tagged -/
theorem analyze_policyset_eq (o : Oracle) (acts : PyVal → PyVal) (unr cov : PyVal → PyVal → PyVal)
    (F : PyVal → PyVal → PyVal → PyVal → PyVal → List PyVal) (policyset ra : PyVal) :
    Src.lint_analyze_policyset o acts unr cov (fun a b c d e => .list (F a b c d e)) policyset ra
      = .list (Lint.analyzePolicyset (envOf o acts unr cov F) policyset ra) := by
  have iter_list : ∀ l : List PyVal, Py.iter (.list l) = l := fun _ => rfl
  simp only [Src.lint_analyze_policyset, analyze_policy_eq, PyLn.enumerate, enumFrom_nat, forStep_map, iter_list]
  refine (forStep_collect _ (fun (kc : Nat × PyVal) => (Lint.analyzePolicy (envOf o acts unr cov F) kc.2 ra).map fun it => tag kc.1 it)
    _ (fun kc _ acc => ?_) []).trans ?_
  · simp only [forStep_append_map]; rfl
  · simp only [List.nil_append, analyzePolicyset, childrenOf, Py.get]

end Rbacx.C17Lint

#print axioms Rbacx.C17Lint.analyze_policy_eq
#print axioms Rbacx.C17Lint.analyze_policyset_eq
