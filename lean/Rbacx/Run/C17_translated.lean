import Rbacx.Generated
import Rbacx.Proofs.PyLibLemmas
import Rbacx.Model.Tools
/-!
  Per-run obligation: `_detect_format` of store/policy_loader.py as it is written NOW (translated into
  `Rbacx.Generated.Src.detect_format` by harness/pytolean.py) computes the model's `detectFormat`, the function the
  theorems `Rbacx.C17.c17_detect_*` (priority explicit hint > content type > extension > JSON) are about.
-/
namespace Rbacx.Translated
open Rbacx Rbacx.Py Rbacx.Generated PyVal

def fmtVal : Format → PyVal
  | .json => .str "json"
  | .yaml => .str "yaml"

theorem ofList_beq_empty (l : List Char) : (String.ofList l == "") = l.isEmpty := by
  cases l with
  | nil => rfl
  | cons c cs => simp

theorem beq_empty_toList (s : String) : (s == "") = s.toList.isEmpty := by
  have := ofList_beq_empty s.toList
  simpa using this

theorem asciiLower_eq_empty (s : String) : (asciiLower s == "") = (s == "") := by
  unfold asciiLower
  rw [ofList_beq_empty, beq_empty_toList]
  cases s.toList <;> rfl

theorem truthy_str (s : String) : (PyVal.str s).truthy = !(s == "") := by
  simp [PyVal.truthy, bne]

theorem cond_fmt (f : String) :
    (Py.pand (PyVal.str f) (Py.contains (.list [.str "json", .str "yaml"]) (.str (asciiLower f)))).truthy =
      (asciiLower f == "json" || asciiLower f == "yaml") := by
  cases hf : (f == "") with
  | true =>
    have : f = "" := by simpa using hf
    subst this; rfl
  | false =>
    have ht : (PyVal.str f).truthy = true := by rw [truthy_str, hf]; rfl
    simp only [Py.pand, ht, if_true, contains_list, List.any_cons, List.any_nil, Bool.or_false, pyEq, truthy_bool]
    rw [show ("json" == asciiLower f) = (asciiLower f == "json") from BEq.comm,
        show ("yaml" == asciiLower f) = (asciiLower f == "yaml") from BEq.comm]

theorem detect_format (fmt ct fn : Option String) :
    Src.detect_format (optToVal fn) (optToVal ct) (optToVal fmt) = fmtVal (detectFormat fmt ct fn) := by
  -- the file-name part, shared by both content-type branches
  have hfn : ∀ fn : Option String,
      (if (optToVal fn).truthy then
         (if (Py.endswith (Py.lower (optToVal fn)) (.list [.str ".yaml", .str ".yml"])).truthy then PyVal.str "yaml"
          else if (Py.endswith (Py.lower (optToVal fn)) (.str ".json")).truthy then PyVal.str "json" else PyVal.str "json")
       else PyVal.str "json") =
      fmtVal (if ((fn.map asciiLower).getD "" != "") &&
                  (strEndsWith ((fn.map asciiLower).getD "") ".yaml" || strEndsWith ((fn.map asciiLower).getD "") ".yml") then .yaml else .json) := by
    intro fn
    cases fn with
    | none => rfl
    | some f =>
      simp only [optToVal, truthy_str, Py.lower, Py.endswith, List.any_cons, List.any_nil, Bool.or_false, truthy_bool,
        Option.map_some, Option.getD_some, bne, asciiLower_eq_empty]
      cases (f == "") <;> cases strEndsWith (asciiLower f) ".yaml" <;> cases strEndsWith (asciiLower f) ".yml" <;>
        simp only [Bool.not_true, Bool.not_false, Bool.false_eq_true, if_false, if_true, Bool.or_false, Bool.or_true, Bool.and_true,
          Bool.and_false, fmtVal] <;> first | rfl | exact ite_self _ | (split <;> rfl)
  unfold Src.detect_format detectFormat
  simp only [hfn]
  cases fmt with
  | some f =>
    have e0 : optToVal (some f) = PyVal.str f := rfl
    have e1 : Py.lower (PyVal.str f) = PyVal.str (asciiLower f) := rfl
    simp only [e0, e1, cond_fmt, Option.map_some, Option.getD_some]
    by_cases hj : asciiLower f = "json"
    · simp only [hj, beq_self_eq_true, Bool.true_or, if_true]; rfl
    · have ej : (asciiLower f == "json") = false := by simpa using hj
      by_cases hy : asciiLower f = "yaml"
      · simp only [hy, show ("yaml" == "json") = false by decide, beq_self_eq_true, Bool.or_true, if_true,
          Bool.false_eq_true, if_false]; rfl
      · have ey : (asciiLower f == "yaml") = false := by simpa using hy
        simp only [ej, ey, Bool.or_false, Bool.false_eq_true, if_false]
        exact detect_ct ct fn
  | none =>
    have e0 : optToVal (Option.none : Option String) = PyVal.none := rfl
    have e1 : (Py.pand PyVal.none (Py.contains (.list [.str "json", .str "yaml"]) (Py.lower PyVal.none))).truthy = false := rfl
    simp only [e0, e1, Bool.false_eq_true, if_false, Option.map_none, Option.getD_none]
    simp only [show ("" == "json") = false by decide, show ("" == "yaml") = false by decide, Bool.false_eq_true, if_false]
    exact detect_ct ct fn
where
  detect_ct (ct fn : Option String) :
      (if (optToVal ct).truthy then
         (if (Py.anyOf (.list [.str "yaml", .str "x-yaml"]) fun marker => Py.contains (Py.lower (optToVal ct)) marker).truthy then PyVal.str "yaml"
          else if (Py.anyOf (.list [.str "json"]) fun marker => Py.contains (Py.lower (optToVal ct)) marker).truthy then PyVal.str "json"
          else fmtVal (if ((fn.map asciiLower).getD "" != "") &&
                  (strEndsWith ((fn.map asciiLower).getD "") ".yaml" || strEndsWith ((fn.map asciiLower).getD "") ".yml") then .yaml else .json))
       else fmtVal (if ((fn.map asciiLower).getD "" != "") &&
                  (strEndsWith ((fn.map asciiLower).getD "") ".yaml" || strEndsWith ((fn.map asciiLower).getD "") ".yml") then .yaml else .json)) =
      fmtVal (if ((ct.map asciiLower).getD "" != "") && (hasInfix ((ct.map asciiLower).getD "") "yaml" || hasInfix ((ct.map asciiLower).getD "") "x-yaml") then .yaml
              else if ((ct.map asciiLower).getD "" != "") && hasInfix ((ct.map asciiLower).getD "") "json" then .json
              else if ((fn.map asciiLower).getD "" != "") &&
                  (strEndsWith ((fn.map asciiLower).getD "") ".yaml" || strEndsWith ((fn.map asciiLower).getD "") ".yml") then .yaml else .json) := by
    cases ct with
    | none => rfl
    | some c =>
      have e0 : optToVal (some c) = PyVal.str c := rfl
      have e1 : Py.lower (PyVal.str c) = PyVal.str (asciiLower c) := rfl
      simp only [e0, e1, truthy_str, Py.anyOf, Py.iter, List.any_cons, List.any_nil, Bool.or_false, Py.contains, truthy_bool,
        Option.map_some, Option.getD_some, bne, asciiLower_eq_empty, hasInfix]
      cases (c == "") <;> cases strContains (asciiLower c) "yaml" <;> cases strContains (asciiLower c) "x-yaml" <;>
        cases strContains (asciiLower c) "json" <;> simp [fmtVal]

end Rbacx.Translated

#print axioms Rbacx.Translated.detect_format
