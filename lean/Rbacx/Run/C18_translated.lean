import Rbacx.Generated
import Rbacx.Proofs.RolesTranslated
import Rbacx.Properties.C18
/-!
  Per-run obligation: the STATIC ROLE RESOLVER of core/roles.py as it is written NOW — `StaticRoleResolver.__init__` and `.expand`,
  translated statement by statement into `Rbacx.Generated.Src.roles_init_graph` / `Src.roles_expand` by harness/pytolean_loops.py
  (plugin `extractors/src_translation_roles.py`) — computes the hand-written model `Rbacx.Roles.expand` (Model/Roles.lean), the
  function the theorems `Rbacx.C18.*` are about.

  `expand` is a `while` loop, which has no total meaning in Lean: the translation runs it with a budget,
  `Src.roles_expand graph roles fuel : Option PyVal` (`none` = the loop body would have to run more than `fuel` times).  Proved here:

  * FUEL SUFFICES (`roles_expand_terminates`): with `fuelBound g roles` = number of given roles + total number of parent entries of
    the graph, every `fuel ≥ fuelBound g roles` gives `some …` — the source's loop ends after at most that many iterations, on every
    graph, cyclic ones and self-loops included.  This is the termination clause of C18, proved of the translated source.
    (Why the bound works — `Proofs/RolesTranslated.lean`: stack length + parent entries of the unvisited keys drops with every iteration.)
  * for such fuel the result is the encoding of the model's `expand g roles` (`roles_expand_eq`), and no budget gives another answer
    (`roles_expand_any_fuel`); `roles=None` gives `[]` under any budget (`roles_expand_none`); `__init__` stores the graph it is given,
    `{}` for `None` (`roles_init_graph`, `roles_init_none`); `resolver_expand`: `StaticRoleResolver(graph).expand(roles)` as a whole.
  * `roles_expand_spec`: with the theorems of Properties/C18.lean, what the translated source returns holds exactly the roles reachable
    from a given role, strictly increasing in code-point order, without duplicates.

  Domain (hypotheses, stated by the types): the graph is a dict of lists of strings (`encGraph g`, `g : List (String × List String)`,
  entries in insertion order; duplicate keys are allowed here, a Python dict has none), `roles` a list of strings (`encStrs roles`) or
  `None` — what the annotations `dict[str, list[str]]`, `list[str] | None` say.  Other shapes (non-string role names, a parent entry
  that is not a list, unhashable names) are outside these statements; the differential check of props/c18.py covers what the real
  code does there.  Values, not references: a caller that mutates the graph dict during `expand` is not represented.
-/
namespace Rbacx.Translated
open Rbacx Rbacx.Py Rbacx.Roles Rbacx.Generated PyVal

/-- `self.graph = graph or {}` keeps a `dict[str, list[str]]` (an empty one is replaced by an equal value) -/
theorem roles_init_graph (g : Graph) : Src.roles_init_graph (encGraph g) = encGraph g := por_encGraph g

/-- `StaticRoleResolver()` / `StaticRoleResolver(None)`: the empty graph -/
theorem roles_init_none : Src.roles_init_graph PyVal.none = encGraph [] := rfl

/-- for every budget of at least `fuelBound g roles` loop iterations the translated `expand` returns the encoding of the model's
    expansion — in particular it returns (`roles_expand_terminates`) -/
theorem roles_expand_eq (g : Graph) (roles : List String) (fuel : Nat) (h : fuelBound g roles ≤ fuel) :
    Src.roles_expand (encGraph g) (encStrs roles) fuel = some (encStrs (expand g roles)) := by
  cases roles with
  | nil => rfl
  | cons a as =>
    unfold Src.roles_expand
    simp only [truthy_pnot_encStrs, List.isEmpty_cons, Bool.false_eq_true, if_false]
    have hs : (PyVal.list (iter (encStrs (a :: as))), setEmpty) = encState (a :: as).reverse [] := by
      simp [encState, encStrs, iter, setEmpty]
    rw [hs]
    rw [whileFuel_expandLoop encState _ _ g ?hcond ?hbody _ _ fuel (by simpa [fuelBound, credit_nil] using h)]
    · simp only [Option.bind_some, encState, sorted_encStrs, expand_cons]
    · intro stack out
      simp [encState, encStrs, PyVal.truthy]
    · intro r rest out
      simp only [encState, List.reverse_cons, listLast_encStrs_snoc, listInit_encStrs_snoc, inSet_encStrs, truthy_bool,
        decide_eq_true_eq, getD_encGraph, collect_singleton, list_iter_encStrs, concat_encStrs, setAdd_encStrs]
      by_cases hr : r ∈ out <;> simp [hr, pushAll]

/-- FUEL SUFFICES: the source's `while stack:` ends within `fuelBound g roles` iterations on every graph (cycles, self-loops,
    parents that are no keys, duplicates) and every role list -/
theorem roles_expand_terminates (g : Graph) (roles : List String) (fuel : Nat) (h : fuelBound g roles ≤ fuel) :
    (Src.roles_expand (encGraph g) (encStrs roles) fuel).isSome = true := by
  rw [roles_expand_eq g roles fuel h]; rfl

/-- more budget never changes an answer (any arguments) -/
theorem roles_expand_mono (graph roles v : PyVal) (n m : Nat) (hnm : n ≤ m)
    (h : Src.roles_expand graph roles n = some v) : Src.roles_expand graph roles m = some v := by
  unfold Src.roles_expand at h ⊢
  split
  · rename_i hc; rw [if_pos hc] at h; exact h
  · rename_i hc
    rw [if_neg hc] at h
    obtain ⟨s, hs, hk⟩ := Option.bind_eq_some_iff.mp h
    exact Option.bind_eq_some_iff.mpr ⟨s, whileFuel_mono _ _ n m _ s hnm hs, hk⟩

/-- whatever budget lets the translated `expand` return, it returns the model's expansion -/
theorem roles_expand_any_fuel (g : Graph) (roles : List String) (fuel : Nat) (v : PyVal)
    (h : Src.roles_expand (encGraph g) (encStrs roles) fuel = some v) : v = encStrs (expand g roles) := by
  have h1 := roles_expand_mono _ _ v fuel (max fuel (fuelBound g roles)) (Nat.le_max_left _ _) h
  rw [roles_expand_eq g roles _ (Nat.le_max_right _ _)] at h1
  exact (Option.some.inj h1).symm

/-- `expand(None)` is `[]`, under any budget -/
theorem roles_expand_none (g : Graph) (fuel : Nat) :
    Src.roles_expand (encGraph g) PyVal.none fuel = some (encStrs (expandOpt g none)) := rfl

/-- `StaticRoleResolver(graph).expand(roles)`: constructor and method together -/
theorem resolver_expand (g : Graph) (roles : List String) (fuel : Nat) (h : fuelBound g roles ≤ fuel) :
    Src.roles_expand (Src.roles_init_graph (encGraph g)) (encStrs roles) fuel = some (encStrs (expand g roles)) := by
  rw [roles_init_graph]; exact roles_expand_eq g roles fuel h

/-- `StaticRoleResolver().expand(roles)` (no graph): the given roles, sorted, without duplicates; `len(roles)` iterations suffice -/
theorem resolver_expand_no_graph (roles : List String) (fuel : Nat) (h : roles.length ≤ fuel) :
    Src.roles_expand (Src.roles_init_graph PyVal.none) (encStrs roles) fuel = some (encStrs (expand [] roles)) := by
  rw [roles_init_none]; exact roles_expand_eq [] roles fuel (by simpa [fuelBound, totalParents] using h)

/-- C18's statements, about the translated source: it returns, and what it returns holds exactly the roles reachable from a given
    role along configured inheritance edges, strictly increasing in code-point order, hence without duplicates -/
theorem roles_expand_spec (g : Graph) (roles : List String) (fuel : Nat) (h : fuelBound g roles ≤ fuel) :
    ∃ out : List String, Src.roles_expand (encGraph g) (encStrs roles) fuel = some (encStrs out)
      ∧ (∀ r, r ∈ out ↔ ∃ r₀ ∈ roles, Reach g r₀ r) ∧ out.Pairwise (· < ·) ∧ out.Nodup :=
  ⟨expand g roles, roles_expand_eq g roles fuel h, C18.c18_closure g roles, (C18.c18_sorted_nodup g roles).1,
    (C18.c18_sorted_nodup g roles).2⟩

/-- the budget is the one the evaluator `Run/SrcEvalRoles.lean` computes from the Python values -/
theorem fuel_of_values (g : Graph) (roles : List String) : fuelBoundV (encGraph g) (encStrs roles) = fuelBound g roles :=
  fuelBoundV_enc g roles

/-! non-vacuity: a two-cycle with a self-loop; the budget is tight on a chain and one short of it is not enough -/
example : Src.roles_expand (encGraph [("a", ["b", "a"]), ("b", ["a"])]) (encStrs ["b"]) 4 = some (encStrs ["a", "b"]) := by
  rw [roles_expand_eq _ _ _ (by decide)]
  simp [expand, expandLoop, parents, Roles.lookup, pushAll, sortStrings, Roles.insertSorted]
example : fuelBound [("a", ["b"]), ("b", ["c"])] ["a"] = 3 := rfl
example : Src.roles_expand (encGraph [("a", ["b"]), ("b", ["c"])]) (encStrs ["a"]) 2 = Option.none := by
  simp [Src.roles_expand, whileFuel, encGraph, encStrs, pnot, PyVal.truthy, iter, setEmpty, listLast, listInit, inSet, pyEq, setAdd,
    Py.getDV, PyVal.lookup, collect, concat]

end Rbacx.Translated

#print axioms Rbacx.Translated.roles_init_graph
#print axioms Rbacx.Translated.roles_init_none
#print axioms Rbacx.Translated.roles_expand_eq
#print axioms Rbacx.Translated.roles_expand_terminates
#print axioms Rbacx.Translated.roles_expand_mono
#print axioms Rbacx.Translated.roles_expand_any_fuel
#print axioms Rbacx.Translated.roles_expand_none
#print axioms Rbacx.Translated.resolver_expand
#print axioms Rbacx.Translated.resolver_expand_no_graph
#print axioms Rbacx.Translated.roles_expand_spec
#print axioms Rbacx.Translated.fuel_of_values
