import Rbacx.Run.C19_translated
import Rbacx.Run.C19_logger_translated
/-!
  Per-run obligation (C19): the TRANSLATED logger composed with the TRANSLATED enforcer.  `Run/C19_logger_translated.lean` reads the
  external `apply_obligations` of `DecisionLogger.log` as an outcome parameter; here it is instantiated with the translation of the
  CURRENT source text of obligations/enforcer.py (`Src.apply_obligations`, `Run/C19_translated.lean`): for documented redaction specs
  (`plainSpec`, the hypothesis of `c19_redaction_total`) the two translations together — no hand-written reading of the call in
  between — compute the model's `Redact.log`.
-/
namespace Rbacx.Translated
open Rbacx Rbacx.Generated Rbacx.Redact Rbacx.PyL

/-- the external as the TRANSLATED enforcer: `some v` = it returned `v` (with `in_place` the returned object IS the argument object,
    without it the call works on a deep copy and the argument is untouched), `none` = an exception escaped -/
def applyTranslated (x y z : PyVal) : CallOut :=
  match Src.apply_obligations x y z with
  | some v => .returned v (if z.truthy then v else x)
  | none => .raised x

theorem logger_log_composed (sr : FNum) (red : Option (List PyVal)) (ip ud sm : PyVal) (rates : Option RateMap) (mb : PyVal)
    (js : PyVal → Option Nat) (payload : PyVal) (draw : FNum) (henv : envDom payload)
    (hplain : (effectiveSpecs (cfgNow sr red ip ud sm rates mb)).all plainSpec = true) :
    Src.logger_log (selfOf sr red ip ud sm rates mb) applyTranslated js draw payload
      = (log (cfgNow sr red ip ud sm rates mb) js payload draw).map fun o => Py.setItem (Py.dictCopy payload) "env" o.env := by
  apply logger_log_ext _ _ _ _ _ _ _ _ _ _ _ henv
  intro _
  obtain ⟨h1, h2⟩ := apply_obligations (envObj payload) _ (.bool (cfgNow sr red ip ud sm rates mb).inPlace) hplain
  simp only [applyTranslated, h1, applyModel, Py.iter, h2, Bool.false_eq_true, if_false]

end Rbacx.Translated

#print axioms Rbacx.Translated.logger_log_composed
