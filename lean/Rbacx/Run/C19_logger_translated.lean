import Rbacx.Generated
import Rbacx.Proofs.LoggerTranslated
/-!
  Per-run obligation (C19): the audit logger AS THE SOURCE HAS IT NOW — `DecisionLogger.__init__` (the normalisation of its arguments),
  `DecisionLogger._should_drop_by_sampling`, `DecisionLogger.log` of logging/decision_logger.py and the module constant
  `_DEFAULT_REDACTIONS`, translated by harness/pytolean_logger.py into `Rbacx.Generated.Src.logger_init` / `Src.should_drop` /
  `Src.logger_log` / `Src.default_redactions` — equals the hand-written model `Redact.LogCfg` / `Redact.shouldDrop` / `Redact.log`
  (Model/Redact.lean), the functions the theorems `Rbacx.C19.c19_priority`, `c19_sampling`, `c19_smart_defaults`, `c19_size_bound`,
  `c19_redaction_total_logger`, `c19_no_leak` are about.  For EVERY constructor argument tuple (`red : Option (List PyVal)` = the
  `redactions=` argument, None or a list), payload, draw and size oracle:

  * `logger_init` — the attributes `__init__` leaves are the model's configuration: the rate, `_redactions_provided` / `redactions` =
    "provided" / the list, the three flags = the truthiness of the arguments, `sample_strategy = effStrategy`, `max_env_bytes` None
    exactly when `effBound` is none (and `size > self.max_env_bytes` is the model's comparison otherwise);
  * `should_drop` — `Src.should_drop self draw payload = .bool (shouldDrop cfg payload draw)`: legacy and smart sampling, the category,
    the clamp, `<= 0.0` and `random.random() > rate`, no hypothesis;
  * `logger_log` — with the external `apply_obligations` read as the model's OUTCOME of the call (`applyModel`: `applySpecs` returned
    resp. raised, and the state of the argument object afterwards: malformed specs included) and on the stated domain (`envDom`: the
    payload's `env` is a dict or falsy), `Src.logger_log self applyModel js draw payload` is `none` exactly when the model drops the
    record and otherwise `some` of `dict(payload)` with `env` set to the env the model emits — the redacted env, the truncation marker,
    the env as `apply_obligations` left it when it raised (outer `except`), the redacted env when the size oracle raised (inner `except`).
  Trusted: the translator and Model/PyLogger.lean (validated against the real `DecisionLogger` by Run/SrcEvalLogger.lean on every run).
-/
namespace Rbacx.Translated
open Rbacx Rbacx.Generated Rbacx.Redact Rbacx.PyL
open PyVal (lookup)

/-- the attributes of `DecisionLogger(sample_rate=sr, redactions=red, …)` -/
abbrev selfOf (sr : FNum) (red : Option (List PyVal)) (ip ud sm : PyVal) (rates : Option RateMap) (mb : PyVal) : Src.LoggerSelf :=
  Src.logger_init sr (optSpecs red) ip ud sm rates mb

/-- the model's configuration of the same constructor call (`_DEFAULT_REDACTIONS` as the source has it now) -/
abbrev cfgNow (sr : FNum) (red : Option (List PyVal)) (ip ud sm : PyVal) (rates : Option RateMap) (mb : PyVal) : LogCfg :=
  cfgOf Src.default_redactions sr red ip ud sm rates mb

/-- `_DEFAULT_REDACTIONS` is a list display -/
theorem default_redactions_list : Src.default_redactions = .list (Py.iter Src.default_redactions) := rfl

/-- `__init__`: the attributes are the model's configuration -/
theorem logger_init (sr : FNum) (red : Option (List PyVal)) (ip ud sm : PyVal) (rates : Option RateMap) (mb : PyVal) :
    let s := selfOf sr red ip ud sm rates mb
    let cfg := cfgNow sr red ip ud sm rates mb
    s.sample_rate = cfg.sampleRate ∧
      s.redactions_provided = .bool cfg.redactions.isSome ∧ s.redactions = .list (cfg.redactions.getD []) ∧
      s.redact_in_place = .bool cfg.inPlace ∧ s.use_default_redactions = .bool cfg.useDefault ∧ s.smart_sampling = .bool cfg.smart ∧
      s.sample_strategy = effStrategy cfg ∧ s.max_env_bytes = normBound cfg.maxEnvBytes := by
  intro s cfg
  refine ⟨rfl, (redactions_norm red).2, (redactions_norm red).1, rfl, rfl, rfl, rateMapOr_eff rates cfg rfl, rfl⟩

/-- `_should_drop_by_sampling(payload)` with `random.random() = draw` is the model's `shouldDrop` -/
theorem should_drop (sr : FNum) (red : Option (List PyVal)) (ip ud sm : PyVal) (rates : Option RateMap) (mb : PyVal)
    (payload : PyVal) (draw : FNum) :
    Src.should_drop (selfOf sr red ip ud sm rates mb) draw payload = .bool (shouldDrop (cfgNow sr red ip ud sm rates mb) payload draw) := by
  obtain ⟨h1, -, -, -, -, h6, h7, -⟩ := logger_init sr red ip ud sm rates mb
  unfold Src.should_drop
  have hcat : (if (isDenyVal (payload.get "decision") || !(payload.get "allowed").truthy) = true then PyVal.str "deny"
        else if (payload.get "obligations").truthy = true then PyVal.str "permit_with_obligations" else PyVal.str "permit")
      = .str (category payload) := by
    rw [category_eq]
    by_cases hc : (isDenyVal (payload.get "decision") || !(payload.get "allowed").truthy) = true <;>
      by_cases ho : (payload.get "obligations").truthy = true <;> simp [hc, ho]
  simp only [h1, h6, h7, Py.pnot, truthy_bool, decision_is_deny, por_bool, allowed_truthy, obligations_truthy, hcat, rateGet,
    floatOf, shouldDrop, effRate, FNum.clamp]
  cases (cfgNow sr red ip ud sm rates mb).smart <;> simp

/-- `log(payload)` for ANY reading `ext` of the external that answers the ONE call `log` makes — `apply_obligations(env_obj,
    redaction_specs, in_place=self.redact_in_place)`, made only when the effective spec list is not empty — as the model does
    (`applyModel`): dropped, or the emitted record = `dict(payload)` with `env` set to what the model emits -/
theorem logger_log_ext (sr : FNum) (red : Option (List PyVal)) (ip ud sm : PyVal) (rates : Option RateMap) (mb : PyVal)
    (ext : PyVal → PyVal → PyVal → CallOut) (js : PyVal → Option Nat) (payload : PyVal) (draw : FNum) (henv : envDom payload)
    (hext : effectiveSpecs (cfgNow sr red ip ud sm rates mb) ≠ [] →
      ext (envObj payload) (.list (effectiveSpecs (cfgNow sr red ip ud sm rates mb))) (.bool (cfgNow sr red ip ud sm rates mb).inPlace)
        = applyModel (envObj payload) (.list (effectiveSpecs (cfgNow sr red ip ud sm rates mb)))
            (.bool (cfgNow sr red ip ud sm rates mb).inPlace)) :
    Src.logger_log (selfOf sr red ip ud sm rates mb) ext js draw payload
      = (log (cfgNow sr red ip ud sm rates mb) js payload draw).map fun o => Py.setItem (Py.dictCopy payload) "env" o.env := by
  obtain ⟨-, h2, h3, h4, h5, -, -, h8⟩ := logger_init sr red ip ud sm rates mb
  unfold Src.logger_log
  simp only [should_drop, h2, h3, h4, h5, h8, truthy_bool, env_obj_eq payload henv, marker_eq]
  unfold log
  cases hd : shouldDrop (cfgNow sr red ip ud sm rates mb) payload draw
  case true => simp
  case false =>
    simp only [Bool.false_eq_true, if_false]
    -- the redaction set by strict priority, as a list
    have hspecs : (if (cfgNow sr red ip ud sm rates mb).redactions.isSome = true then
          PyVal.list ((cfgNow sr red ip ud sm rates mb).redactions.getD [])
        else if (cfgNow sr red ip ud sm rates mb).useDefault = true then Src.default_redactions else PyVal.list [])
        = .list (effectiveSpecs (cfgNow sr red ip ud sm rates mb)) := by
      unfold effectiveSpecs
      cases hr : (cfgNow sr red ip ud sm rates mb).redactions with
      | some rs => simp
      | none =>
        cases hu : (cfgNow sr red ip ud sm rates mb).useDefault
        · simp
        · simp only [Option.isSome_none, Bool.false_eq_true, if_false, if_true]
          exact default_redactions_list
    rw [hspecs]
    -- the size check on a redacted env `e`
    have hsize : ∀ e : PyVal,
        (if (Py.isNotNone (normBound (cfgNow sr red ip ud sm rates mb).maxEnvBytes)).truthy = true then
            match js e with
            | none => some (Py.setItem (Py.dictCopy payload) "env" e)
            | some size_n =>
              if (Py.gt (PyVal.int size_n) (normBound (cfgNow sr red ip ud sm rates mb).maxEnvBytes)).truthy = true then
                some (Py.setItem (Py.dictCopy payload) "env" (truncMarker size_n))
              else some (Py.setItem (Py.dictCopy payload) "env" e)
          else some (Py.setItem (Py.dictCopy payload) "env" e))
        = (match effBound (cfgNow sr red ip ud sm rates mb) with
            | none => some (⟨e, false⟩ : LogOut)
            | some b =>
              match js e with
              | none => some ⟨e, false⟩
              | some n => if (n : Int) > b then some ⟨truncMarker n, true⟩ else some ⟨e, false⟩).map
            fun (o : LogOut) => Py.setItem (Py.dictCopy payload) "env" o.env := by
      intro e
      cases hb : effBound (cfgNow sr red ip ud sm rates mb) with
      | none => simp [normBound_none _ hb, Py.isNotNone, PyVal.isNone, PyVal.truthy]
      | some b =>
        obtain ⟨hnn, hgt⟩ := normBound_some _ b hb
        simp only [hnn, if_true, hgt]
        cases js e with
        | none => simp
        | some n => by_cases hn : (n : Int) > b <;> simp [hn]
    unfold redactStep
    cases hl : effectiveSpecs (cfgNow sr red ip ud sm rates mb) with
    | nil =>
      simp only [truthy_list, List.isEmpty_nil, Bool.not_true, Bool.false_eq_true, if_false]
      exact hsize _
    | cons x xs =>
      have hx := hext (by rw [hl]; exact List.cons_ne_nil _ _)
      rw [hl] at hx
      simp only [truthy_list, List.isEmpty_cons, Bool.not_false, if_true, hx, applyModel, Py.iter, truthy_bool]
      rcases Bool.eq_false_or_eq_true (applySpecs (envObj payload) (x :: xs)).2 with hr | hr
      · simp only [hr, if_true, Option.map_some]
        rfl
      · simp only [hr, Bool.false_eq_true, if_false]
        exact hsize _

/-- `log(payload)` with the external read as the model's outcome of the call (`applyModel`: `applySpecs` returned resp. raised —
    malformed specs included — and the state of the argument object afterwards) -/
theorem logger_log (sr : FNum) (red : Option (List PyVal)) (ip ud sm : PyVal) (rates : Option RateMap) (mb : PyVal)
    (js : PyVal → Option Nat) (payload : PyVal) (draw : FNum) (henv : envDom payload) :
    Src.logger_log (selfOf sr red ip ud sm rates mb) applyModel js draw payload
      = (log (cfgNow sr red ip ud sm rates mb) js payload draw).map fun o => Py.setItem (Py.dictCopy payload) "env" o.env :=
  logger_log_ext sr red ip ud sm rates mb applyModel js payload draw henv (fun _ => rfl)

/-- what the equality says about emission: a record is emitted exactly when the model does not drop it, and its `env` is the model's -/
theorem logger_log_env (sr : FNum) (red : Option (List PyVal)) (ip ud sm : PyVal) (rates : Option RateMap) (mb : PyVal)
    (js : PyVal → Option Nat) (kvs : List (String × PyVal)) (draw : FNum) (henv : envDom (.dict kvs)) :
    (Src.logger_log (selfOf sr red ip ud sm rates mb) applyModel js draw (.dict kvs)).map (fun r => r.get "env")
      = (log (cfgNow sr red ip ud sm rates mb) js (.dict kvs) draw).map fun o => o.env := by
  rw [logger_log _ _ _ _ _ _ _ _ _ _ henv, Option.map_map]
  congr 1
  funext o
  simp only [Function.comp, Py.dictCopy, Py.setItem, PyVal.get]
  have : ∀ (v : PyVal) (l : List (String × PyVal)), lookup "env" (Py.setKV "env" v l) = some v := by
    intro v l
    induction l with
    | nil => simp [Py.setKV, lookup]
    | cons kv rest ih =>
      obtain ⟨k, w⟩ := kv
      by_cases hk : k = "env" <;> simp [Py.setKV, lookup, hk, ih]
  simp [this]

end Rbacx.Translated

#print axioms Rbacx.Translated.logger_init
#print axioms Rbacx.Translated.should_drop
#print axioms Rbacx.Translated.logger_log_ext
#print axioms Rbacx.Translated.logger_log
#print axioms Rbacx.Translated.logger_log_env
