import Rbacx.Generated
import Rbacx.Proofs.EnforcerTranslated
/-!
  Per-run obligation (C19): the redaction enforcer AS THE SOURCE HAS IT NOW — `_ensure_list_size`, `_set_by_path`, `apply_obligations`
  of obligations/enforcer.py, translated by harness/pytolean_cursor.py into `Rbacx.Generated.Src.*` (one state, the cursor `cur` an
  access path into it, every store a functional update of the state, every operation that can raise `Option`-valued) — equals the
  hand-written model `Redact.setByPath` / `Redact.applySpecs` (Model/Redact.lean), the functions the theorems `Rbacx.C19.*` are about.
  `= some …` also says: no subscript, unpacking or `int()` of the source lets an exception escape, and the `while` budget suffices.
-/
namespace Rbacx.Translated
open Rbacx Rbacx.Generated Rbacx.PyC Rbacx.Redact
open PyVal (lookup)

/-- `_ensure_list_size(lst, idx)` through the reference `lst`: the list there grows as `ensureSize` says -/
theorem ensure_list_size (st0 : PyVal) (lst : Path) (xs : List PyVal) (i : Int) (hv : (atPath st0 lst).isSome = true) :
    Src.ensure_list_size (putT st0 lst (.list xs)) lst (.int i) = some (putT st0 lst (.list (ensureSize xs i))) := by
  unfold Src.ensure_list_size
  simp only [atPath_putT hv, Option.bind_some, Option.bind_fun_some]
  apply whileO_grow
  · intro ys; simp [atPath_putT hv, lenV, Py.len, Py.le]
  · intro ys; simp [appendAt_putT hv]
  · simp [budget, PyC.add, PyC.sub, lenV, Py.len]

/-- the same through a cursor whose node is a dict holding the list under `k` -/
theorem ensure_at (st0 : PyVal) (cur : Path) (kvs : List (String × PyVal)) (k : String) (xs : List PyVal) (i : Int)
    (hv : (atPath st0 cur).isSome = true) (hl : lookup k kvs = some (.list xs)) :
    Src.ensure_list_size (putT st0 cur (.dict kvs)) (cur ++ [.str k]) (.int i)
      = some (putT st0 cur (.dict (Py.setKV k (.list (ensureSize xs i)) kvs))) := by
  have hv' : (atPath (putT st0 cur (.dict kvs)) (cur ++ [.str k])).isSome = true := by
    rw [atPath_putT_append hv]; simp [atPath, item, hl]
  have hself : putT (putT st0 cur (.dict kvs)) (cur ++ [.str k]) (.list xs) = putT st0 cur (.dict kvs) := by
    apply putT_self; rw [atPath_putT_append hv]; simp [atPath, item, hl]
  have := ensure_list_size (putT st0 cur (.dict kvs)) (cur ++ [.str k]) xs i hv'
  rw [hself] at this
  rw [this, putT_putT_append hv, putT_dict_key _ _ _ (by simp [hl])]

/-- `if key not in cur or not isinstance(cur[key], list): cur[key] = []` on a dict node, whatever follows (`K`): afterwards the node
    holds `childList` of what was there, under `key` at its old position (or appended) -/
theorem block_child_list (st0 : PyVal) (cur : Path) (kvs : List (String × PyVal)) (k : String)
    (hv : (atPath st0 cur).isSome = true) {α : Type} (K : PyVal → Option α) :
    ((orE (Py.pnot (Py.contains (.dict kvs) (.str k))) fun _ =>
          (atPath (putT st0 cur (.dict kvs)) (cur ++ [.str k])).bind fun rd => some (Py.pnot (Py.isInstance rd "list"))).bind fun rd3 =>
        (if rd3.truthy = true then (setAt (putT st0 cur (.dict kvs)) cur (.str k) (.list [])).bind fun st => some st
         else some (putT st0 cur (.dict kvs))).bind K)
      = K (putT st0 cur (.dict (Py.setKV k (.list (childList (lookup k kvs))) kvs))) := by
  simp only [contains_dict_str, atPath_putT_append hv, setAt_putT hv, atPath, item, setItem, Option.map_some,
    Option.bind_fun_some]
  cases hl : lookup k kvs with
  | none => simp [orE, Py.pnot, PyVal.truthy, childList]
  | some v =>
    cases v <;> simp [orE, Py.pnot, PyVal.truthy, childList, isInstance_list, PyVal.isList, setKV_lookup _ _ _ hl]

/-- `if p not in cur or not isinstance(cur[p], dict): cur[p] = {}` on a dict node -/
theorem block_child_dict (st0 : PyVal) (cur : Path) (kvs : List (String × PyVal)) (k : String)
    (hv : (atPath st0 cur).isSome = true) {α : Type} (K : PyVal → Option α) :
    ((orE (Py.pnot (Py.contains (.dict kvs) (.str k))) fun _ =>
          (atPath (putT st0 cur (.dict kvs)) (cur ++ [.str k])).bind fun rd => some (Py.pnot (Py.isInstance rd "dict"))).bind fun rd3 =>
        (if rd3.truthy = true then (setAt (putT st0 cur (.dict kvs)) cur (.str k) (.dict [])).bind fun st => some st
         else some (putT st0 cur (.dict kvs))).bind K)
      = K (putT st0 cur (.dict (Py.setKV k (childDict (lookup k kvs)) kvs))) := by
  simp only [contains_dict_str, atPath_putT_append hv, setAt_putT hv, atPath, item, setItem, Option.map_some,
    Option.bind_fun_some]
  cases hl : lookup k kvs with
  | none => simp [orE, Py.pnot, PyVal.truthy, childDict]
  | some v =>
    cases v <;> simp [orE, Py.pnot, PyVal.truthy, childDict, isInstance_dict, PyVal.isDict, setKV_lookup _ _ _ hl]

/-- `_set_by_path(obj, path, value)`: for EVERY tree `obj`, path string and value the translated source returns — never raises — and
    leaves the caller's `obj` as the model's `setByPath` says -/
theorem set_by_path (obj : PyVal) (path : String) (value : PyVal) :
    Src.set_by_path obj (.str path) value = some (setByPath obj path value) := by
  rw [setByPath_eq]
  unfold Src.set_by_path
  simp only [Py.strOf, splitChar, Py.iter, forEnum]
  refine Eq.trans ?_ (congrArg some (putT_nil obj _))
  show forEnumFrom 0 (putT obj [] obj) [] _ _ = _
  refine forEnumFrom_setParts _ value (PyVal.splitStr '.' path).length ?_ _ 0 obj [] obj rfl (by simp) (splitStr_ne_nil _ _)
  intro i p st0 cur c hv
  simp only [is_last_eq, List.length_map, bracket_test]
  generalize (i + 1 == (PyVal.splitStr '.' path).length) = last
  by_cases hb : (p.toList.contains '[' && p.toList.getLast? == some ']') = true
  · -- list segment `name[idx]`
    have hc : p.toList.contains '[' = true := by simp at hb; simp [hb.1]
    have hseg := parseSeg_bracket p hb
    simp only [hb, if_true, unpack2_splitChar1 p hc, Option.bind_some, intOf_sliceTo]
    cases hint : parsePyInt (List.drop 1 (List.dropWhile (fun x => x != '[') p.toList)).dropLast with
    | none =>
      simp only [hint] at hseg
      cases c <;> simp [iterModel, iterLift, hseg]
    | some idx =>
      simp only [hint] at hseg
      simp only [Option.map_some, atPath_putT hv, Option.bind_some]
      cases c with
      | dict kvs =>
        have hd : (Py.pnot (Py.isInstance (.dict kvs) "dict")).truthy = false := rfl
        simp only [hd, Bool.false_eq_true, if_false]
        rw [block_child_list st0 cur kvs (segKey p) hv]
        generalize hxs : childList (lookup (segKey p) kvs) = xs
        have hl1 : lookup (segKey p) (Py.setKV (segKey p) (.list xs) kvs) = some (.list xs) := lookup_setKV_self _ _ _
        simp only [atPath_putT_append hv, atPath, item, hl1, Option.bind_some, Py.lt, neg, lenV, Py.len]
        simp only [iterModel, hseg, hxs]
        by_cases hlt : idx < -(xs.length : Int)
        · simp [hlt, PyVal.truthy, iterLift, setKey_eq_setKV]
        · have hpos := listPos_normIdx xs idx hlt
          have hlen := normIdx_lt xs idx hlt
          obtain ⟨e, he⟩ : ∃ e, (ensureSize xs idx)[normIdx xs.length idx]? = some e := ⟨_, List.getElem?_eq_getElem hlen⟩
          have hl2 : lookup (segKey p) (Py.setKV (segKey p) (.list (ensureSize xs idx)) kvs) = some (.list (ensureSize xs idx)) :=
            lookup_setKV_self _ _ _
          simp only [hlt, decide_false, truthy_bool, Bool.false_eq_true, if_false, ensure_at st0 cur _ _ _ idx hv hl1, Option.bind_some,
            setKV_setKV]
          cases last
          · -- an intermediate segment: descend into `cur[key][idx]`, replaced by `{}` unless it is a dict
            simp only [Bool.false_eq_true, if_false, atPath_list_elem hv hl2 hpos, he, Option.bind_some]
            by_cases hed : e.isDict = true
            · obtain ⟨d, rfl⟩ : ∃ d, e = .dict d := by cases e <;> simp [PyVal.isDict] at hed; exact ⟨_, rfl⟩
              have hd2 : (Py.pnot (Py.isInstance (.dict d) "dict")).truthy = false := rfl
              simp only [hd2, Bool.false_eq_true, if_false, Option.bind_some, atPath_list_elem hv hl2 hpos, he, iterLift, childDict,
                list_set_self he, setKey_eq_setKV]
            · have hd2 : (Py.pnot (Py.isInstance e "dict")).truthy = true := by cases e <;> simp [PyVal.isDict] at hed <;> rfl
              have hcd : childDict (some e) = .dict [] := by cases e <;> simp [PyVal.isDict] at hed <;> rfl
              have hl3 := lookup_setKV_self (segKey p) (.list ((ensureSize xs idx).set (normIdx xs.length idx) (.dict []))) kvs
              have hpos3 : listPos ((ensureSize xs idx).set (normIdx xs.length idx) (PyVal.dict [])).length idx = some (normIdx xs.length idx) := by
                rw [List.length_set]; exact hpos
              simp only [hd2, if_true, setAt_list_elem hv hl2 hpos, Option.bind_some, setKV_setKV, atPath_list_elem hv hl3 hpos3,
                List.getElem?_set_self hlen, iterLift, hcd, setKey_eq_setKV]
          · simp only [if_true, setAt_list_elem hv hl2 hpos, Option.bind_some, setKV_setKV, iterLift, setKey_eq_setKV]
      | _ => simp [isInstance_dict, PyVal.isDict, Py.pnot, PyVal.truthy, iterModel, iterLift]
  · -- dict segment
    have hb' : (p.toList.contains '[' && p.toList.getLast? == some ']') = false := by simpa using hb
    have hseg := parseSeg_plain p hb'
    simp only [hb', Bool.false_eq_true, if_false, atPath_putT hv, Option.bind_some]
    cases c with
    | dict kvs =>
      have hd : (Py.pnot (Py.isInstance (.dict kvs) "dict")).truthy = false := rfl
      simp only [hd, Bool.false_eq_true, if_false]
      cases last
      · simp only [Bool.false_eq_true, if_false]
        rw [block_child_dict st0 cur kvs p hv]
        simp [atPath_putT_append hv, atPath, item, lookup_setKV_self, iterModel, hseg, iterLift, setKey_eq_setKV]
      · simp [setAt_putT hv, setItem, iterModel, hseg, iterLift, setKey_eq_setKV]
    | _ => simp [isInstance_dict, PyVal.isDict, Py.pnot, PyVal.truthy, iterModel, iterLift]

/-- a path entry that is not a `str` goes through `str(path)`: `None`, a bool, an int (the kinds the model covers, `pathStr`) -/
theorem set_by_path_pathStr (obj p : PyVal) (s : String) (value : PyVal) (h : pathStr p = some s) :
    Src.set_by_path obj p value = some (setByPath obj s value) := by
  have e : Src.set_by_path obj p value = Src.set_by_path obj (.str s) value := by
    unfold Src.set_by_path
    have : Py.strOf p = Py.strOf (.str s) := by
      cases p <;> simp [pathStr] at h <;> try (subst h; rfl)
      case bool b => cases b <;> simp at h <;> subst h <;> rfl
    rw [this]
  rw [e, set_by_path]

end Rbacx.Translated

#print axioms Rbacx.Translated.ensure_list_size
#print axioms Rbacx.Translated.set_by_path
#print axioms Rbacx.Translated.set_by_path_pathStr
