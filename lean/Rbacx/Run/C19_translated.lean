import Rbacx.Generated
import Rbacx.Proofs.EnforcerTranslated
/-!
  Per-run obligation (C19): the redaction enforcer AS THE SOURCE HAS IT NOW — `_ensure_list_size`, `_set_by_path`, `apply_obligations`
  of obligations/enforcer.py, translated by harness/pytolean_cursor.py into `Rbacx.Generated.Src.*` (one state, the cursor `cur` an
  access path into it, every store a functional update of the state, every operation that can raise `Option`-valued) — equals the
  hand-written model `Redact.setByPath` / `Redact.applySpecs` (Model/Redact.lean), the functions the theorems `Rbacx.C19.*` are about.
  `= some …` also says: no subscript, unpacking or `int()` of the source lets an exception escape, and the `while` budget suffices.

  * `ensure_list_size` / `ensure_at` — the helper through a reference: the list grows as `ensureSize` says (budget `idx + 1 - len(lst)`);
  * `block_child_list` / `block_child_dict` — `if k not in cur or not isinstance(cur[k], T): cur[k] = T()` on a dict node, generic in
    what follows;
  * `set_by_path` — for EVERY tree, path string and value (no hypothesis): `= some (setByPath obj path value)`; the body of the emitted
    loop is shown to act as `iterModel` (Proofs/EnforcerTranslated.lean), `forEnumFrom_setParts` does the induction;
  * `apply_obligations` — for documented specs (`plainSpec`, the hypothesis of `c19_redaction_total`), every payload and `in_place`:
    `= some (applySpecs payload specs).1`, nothing raised; `apply_obligations_none`, `apply_obligations_io`.
  Trusted: the translator and Model/PyCursor.lean (validated against CPython by Run/SrcEvalEnforcer.lean on every run).
-/
namespace Rbacx.Translated
open Rbacx Rbacx.Generated Rbacx.PyC Rbacx.Redact
open PyVal (lookup)

/-- `_ensure_list_size(lst, idx)` through the reference `lst`: the list there grows as `ensureSize` says -/
theorem ensure_list_size (st0 : PyVal) (lst : Path) (xs : List PyVal) (i : Int) (hv : (atPath st0 lst).isSome = true) :
    Src.ensure_list_size (putT st0 lst (.list xs)) lst (.int i) = some (putT st0 lst (.list (ensureSize xs i))) := by
  unfold Src.ensure_list_size
  simp only [atPath_putT hv, Option.bind_some, Option.bind_fun_some]
  apply whileO_grow
  · intro ys; simp [atPath_putT hv, lenV, Py.len, Py.le]
  · intro ys; simp [appendAt_putT hv]
  · simp [budget, PyC.add, PyC.sub, lenV, Py.len]

/-- the same through a cursor whose node is a dict holding the list under `k` -/
theorem ensure_at (st0 : PyVal) (cur : Path) (kvs : List (String × PyVal)) (k : String) (xs : List PyVal) (i : Int)
    (hv : (atPath st0 cur).isSome = true) (hl : lookup k kvs = some (.list xs)) :
    Src.ensure_list_size (putT st0 cur (.dict kvs)) (cur ++ [.str k]) (.int i)
      = some (putT st0 cur (.dict (Py.setKV k (.list (ensureSize xs i)) kvs))) := by
  have hv' : (atPath (putT st0 cur (.dict kvs)) (cur ++ [.str k])).isSome = true := by
    rw [atPath_putT_append hv]; simp [atPath, item, hl]
  have hself : putT (putT st0 cur (.dict kvs)) (cur ++ [.str k]) (.list xs) = putT st0 cur (.dict kvs) := by
    apply putT_self; rw [atPath_putT_append hv]; simp [atPath, item, hl]
  have := ensure_list_size (putT st0 cur (.dict kvs)) (cur ++ [.str k]) xs i hv'
  rw [hself] at this
  rw [this, putT_putT_append hv, putT_dict_key _ _ _ (by simp [hl])]

/-- `if key not in cur or not isinstance(cur[key], list): cur[key] = []` on a dict node, whatever follows (`K`): afterwards the node
    holds `childList` of what was there, under `key` at its old position (or appended) -/
theorem block_child_list (st0 : PyVal) (cur : Path) (kvs : List (String × PyVal)) (k : String)
    (hv : (atPath st0 cur).isSome = true) {α : Type} (K : PyVal → Option α) :
    ((orE (Py.pnot (Py.contains (.dict kvs) (.str k))) fun _ =>
          (atPath (putT st0 cur (.dict kvs)) (cur ++ [.str k])).bind fun rd => some (Py.pnot (Py.isInstance rd "list"))).bind fun rd3 =>
        (if rd3.truthy = true then (setAt (putT st0 cur (.dict kvs)) cur (.str k) (.list [])).bind fun st => some st
         else some (putT st0 cur (.dict kvs))).bind K)
      = K (putT st0 cur (.dict (Py.setKV k (.list (childList (lookup k kvs))) kvs))) := by
  simp only [contains_dict_str, atPath_putT_append hv, setAt_putT hv, atPath, item, setItem, Option.map_some,
    Option.bind_fun_some]
  cases hl : lookup k kvs with
  | none => simp [orE, Py.pnot, PyVal.truthy, childList]
  | some v =>
    cases v <;> simp [orE, Py.pnot, PyVal.truthy, childList, isInstance_list, PyVal.isList, setKV_lookup _ _ _ hl]

/-- `if p not in cur or not isinstance(cur[p], dict): cur[p] = {}` on a dict node -/
theorem block_child_dict (st0 : PyVal) (cur : Path) (kvs : List (String × PyVal)) (k : String)
    (hv : (atPath st0 cur).isSome = true) {α : Type} (K : PyVal → Option α) :
    ((orE (Py.pnot (Py.contains (.dict kvs) (.str k))) fun _ =>
          (atPath (putT st0 cur (.dict kvs)) (cur ++ [.str k])).bind fun rd => some (Py.pnot (Py.isInstance rd "dict"))).bind fun rd3 =>
        (if rd3.truthy = true then (setAt (putT st0 cur (.dict kvs)) cur (.str k) (.dict [])).bind fun st => some st
         else some (putT st0 cur (.dict kvs))).bind K)
      = K (putT st0 cur (.dict (Py.setKV k (childDict (lookup k kvs)) kvs))) := by
  simp only [contains_dict_str, atPath_putT_append hv, setAt_putT hv, atPath, item, setItem, Option.map_some,
    Option.bind_fun_some]
  cases hl : lookup k kvs with
  | none => simp [orE, Py.pnot, PyVal.truthy, childDict]
  | some v =>
    cases v <;> simp [orE, Py.pnot, PyVal.truthy, childDict, isInstance_dict, PyVal.isDict, setKV_lookup _ _ _ hl]

/-- `_set_by_path(obj, path, value)`: for EVERY tree `obj`, path string and value the translated source returns — never raises — and
    leaves the caller's `obj` as the model's `setByPath` says -/
theorem set_by_path (obj : PyVal) (path : String) (value : PyVal) :
    Src.set_by_path obj (.str path) value = some (setByPath obj path value) := by
  rw [setByPath_eq]
  unfold Src.set_by_path
  simp only [Py.strOf, splitChar, Py.iter, forEnum]
  refine Eq.trans ?_ (congrArg some (putT_nil obj _))
  show forEnumFrom 0 (putT obj [] obj) [] _ _ = _
  refine forEnumFrom_setParts _ value (PyVal.splitStr '.' path).length ?_ _ 0 obj [] obj rfl (by simp) (splitStr_ne_nil _ _)
  intro i p st0 cur c hv
  simp only [is_last_eq, List.length_map, bracket_test]
  generalize (i + 1 == (PyVal.splitStr '.' path).length) = last
  by_cases hb : (p.toList.contains '[' && p.toList.getLast? == some ']') = true
  · -- list segment `name[idx]`
    have hc : p.toList.contains '[' = true := by simp at hb; simp [hb.1]
    have hseg := parseSeg_bracket p hb
    simp only [hb, if_true, unpack2_splitChar1 p hc, Option.bind_some, intOf_sliceTo]
    cases hint : parsePyInt (List.drop 1 (List.dropWhile (fun x => x != '[') p.toList)).dropLast with
    | none =>
      simp only [hint] at hseg
      cases c <;> simp [iterModel, iterLift, hseg]
    | some idx =>
      simp only [hint] at hseg
      simp only [Option.map_some, atPath_putT hv, Option.bind_some]
      cases c with
      | dict kvs =>
        have hd : (Py.pnot (Py.isInstance (.dict kvs) "dict")).truthy = false := rfl
        simp only [hd, Bool.false_eq_true, if_false]
        rw [block_child_list st0 cur kvs (segKey p) hv]
        generalize hxs : childList (lookup (segKey p) kvs) = xs
        have hl1 : lookup (segKey p) (Py.setKV (segKey p) (.list xs) kvs) = some (.list xs) := lookup_setKV_self _ _ _
        simp only [atPath_putT_append hv, atPath, item, hl1, Option.bind_some, Py.lt, neg, lenV, Py.len]
        simp only [iterModel, hseg, hxs]
        by_cases hlt : idx < -(xs.length : Int)
        · simp [hlt, PyVal.truthy, iterLift, setKey_eq_setKV]
        · have hpos := listPos_normIdx xs idx hlt
          have hlen := normIdx_lt xs idx hlt
          obtain ⟨e, he⟩ : ∃ e, (ensureSize xs idx)[normIdx xs.length idx]? = some e := ⟨_, List.getElem?_eq_getElem hlen⟩
          have hl2 : lookup (segKey p) (Py.setKV (segKey p) (.list (ensureSize xs idx)) kvs) = some (.list (ensureSize xs idx)) :=
            lookup_setKV_self _ _ _
          simp only [hlt, decide_false, truthy_bool, Bool.false_eq_true, if_false, ensure_at st0 cur _ _ _ idx hv hl1, Option.bind_some,
            setKV_setKV]
          cases last
          · -- an intermediate segment: descend into `cur[key][idx]`, replaced by `{}` unless it is a dict
            simp only [Bool.false_eq_true, if_false, atPath_list_elem hv hl2 hpos, he, Option.bind_some]
            by_cases hed : e.isDict = true
            · obtain ⟨d, rfl⟩ : ∃ d, e = .dict d := by cases e <;> simp [PyVal.isDict] at hed; exact ⟨_, rfl⟩
              have hd2 : (Py.pnot (Py.isInstance (.dict d) "dict")).truthy = false := rfl
              simp only [hd2, Bool.false_eq_true, if_false, Option.bind_some, atPath_list_elem hv hl2 hpos, he, iterLift, childDict,
                list_set_self he, setKey_eq_setKV]
            · have hd2 : (Py.pnot (Py.isInstance e "dict")).truthy = true := by cases e <;> simp [PyVal.isDict] at hed <;> rfl
              have hcd : childDict (some e) = .dict [] := by cases e <;> simp [PyVal.isDict] at hed <;> rfl
              have hl3 := lookup_setKV_self (segKey p) (.list ((ensureSize xs idx).set (normIdx xs.length idx) (.dict []))) kvs
              have hpos3 : listPos ((ensureSize xs idx).set (normIdx xs.length idx) (PyVal.dict [])).length idx = some (normIdx xs.length idx) := by
                rw [List.length_set]; exact hpos
              simp only [hd2, if_true, setAt_list_elem hv hl2 hpos, Option.bind_some, setKV_setKV, atPath_list_elem hv hl3 hpos3,
                List.getElem?_set_self hlen, iterLift, hcd, setKey_eq_setKV]
          · simp only [if_true, setAt_list_elem hv hl2 hpos, Option.bind_some, setKV_setKV, iterLift, setKey_eq_setKV]
      | _ => simp [isInstance_dict, PyVal.isDict, Py.pnot, PyVal.truthy, iterModel, iterLift]
  · -- dict segment
    have hb' : (p.toList.contains '[' && p.toList.getLast? == some ']') = false := by simpa using hb
    have hseg := parseSeg_plain p hb'
    simp only [hb', Bool.false_eq_true, if_false, atPath_putT hv, Option.bind_some]
    cases c with
    | dict kvs =>
      have hd : (Py.pnot (Py.isInstance (.dict kvs) "dict")).truthy = false := rfl
      simp only [hd, Bool.false_eq_true, if_false]
      cases last
      · simp only [Bool.false_eq_true, if_false]
        rw [block_child_dict st0 cur kvs p hv]
        simp [atPath_putT_append hv, atPath, item, lookup_setKV_self, iterModel, hseg, iterLift, setKey_eq_setKV]
      · simp [setAt_putT hv, setItem, iterModel, hseg, iterLift, setKey_eq_setKV]
    | _ => simp [isInstance_dict, PyVal.isDict, Py.pnot, PyVal.truthy, iterModel, iterLift]

/-- a path entry that is not a `str` goes through `str(path)`: `None`, a bool, an int (the kinds the model covers, `pathStr`) -/
theorem set_by_path_pathStr (obj p : PyVal) (s : String) (value : PyVal) (h : pathStr p = some s) :
    Src.set_by_path obj p value = some (setByPath obj s value) := by
  have e : Src.set_by_path obj p value = Src.set_by_path obj (.str s) value := by
    unfold Src.set_by_path
    have : Py.strOf p = Py.strOf (.str s) := by
      cases p <;> simp [pathStr] at h <;> try (subst h; rfl)
      case bool b => cases b <;> simp at h <;> subst h <;> rfl
    rw [this]
  rw [e, set_by_path]


/-- `apply_obligations(payload, specs, in_place=…)` on DOCUMENTED specs (`plainSpec`: a mapping whose `fields` is missing, falsy or a
    list of `str` — the hypothesis of `c19_redaction_total`): the translated source returns — nothing raises — the model's
    `applySpecs payload specs`, whatever `in_place` is.  (`payload` is the VALUE the caller passed: it is not changed by anything here;
    that the caller's OBJECT is untouched without `in_place`, and is the returned one with it, is what `copy.deepcopy` buys in CPython
    — `deepcopy` is the identity on values — and is tied by the harness's identity / before-after checks.) -/
theorem apply_obligations (payload : PyVal) (specs : List PyVal) (in_place : PyVal) (h : specs.all plainSpec = true) :
    Src.apply_obligations payload (.list specs) in_place = some (applySpecs payload specs).1 ∧ (applySpecs payload specs).2 = false := by
  unfold Src.apply_obligations
  have hst : (if in_place.truthy = true then payload else deepcopy payload) = payload := by simp [deepcopy]
  have hit : Py.iter (PyVal.por (.list specs) (.list [])) = specs := by
    cases specs <;> simp [PyVal.por, PyVal.truthy, Py.iter]
  simp only [hst, hit, Option.bind_fun_some]
  refine forState_specs _ ?_ specs h payload
  intro ob st hp
  obtain ⟨kvs, rfl⟩ : ∃ kvs, ob = .dict kvs := by cases ob <;> simp [plainSpec] at hp; exact ⟨_, rfl⟩
  obtain ⟨ps, hf, hstr, hiter⟩ := fields_plain kvs hp
  simp only [hiter]
  have hmask : ∀ v : PyVal, forState ps st (fun path st => Src.set_by_path st path v)
      = some (applyWrites st (ps.filterMap fun p => (pathStr p).map fun s => (s, v))) :=
    fun v => forState_paths _ v (fun s st => set_by_path st s v) ps hstr st
  simp only [hmask, specWrites, hf, Option.map_some, Py.get, PyVal.get, Py.getD, Py.eq]
  cases hl : lookup "type" kvs with
  | none => exact ⟨[], rfl, rfl⟩
  | some t =>
    cases t with
    | str s =>
      by_cases h1 : s = "mask_fields"
      · subst h1
        exact ⟨_, rfl, by simp [PyVal.pyEq, PyVal.truthy, phMask]⟩
      · by_cases h2 : s = "redact_fields"
        · subst h2
          exact ⟨_, rfl, by simp [PyVal.pyEq, PyVal.truthy, phRedact]⟩
        · refine ⟨[], ?_, by simp [PyVal.pyEq, PyVal.truthy, h1, h2, applyWrites_nil]⟩
          split <;> simp_all
    | _ => exact ⟨[], rfl, by simp [PyVal.pyEq, PyVal.truthy, applyWrites_nil]⟩

/-- `obligations=None` / `[]`: the payload comes back as it is -/
theorem apply_obligations_none (payload in_place : PyVal) :
    Src.apply_obligations payload .none in_place = some payload := by
  unfold Src.apply_obligations
  have hst : (if in_place.truthy = true then payload else deepcopy payload) = payload := by simp [deepcopy]
  have hit : Py.iter (PyVal.por .none (.list [])) = [] := rfl
  simp only [hst, hit, forState, Option.bind_some]

/-- what the caller sees (`applyObligationsIO`): the returned payload is the model's; without `in_place` the payload passed in — a
    value — is what it was -/
theorem apply_obligations_io (payload : PyVal) (specs : List PyVal) (in_place : Bool) (h : specs.all plainSpec = true) :
    Src.apply_obligations payload (.list specs) (.bool in_place) = some (applyObligationsIO payload specs in_place).1 ∧
      (in_place = false → (applyObligationsIO payload specs in_place).2 = payload) := by
  refine ⟨(apply_obligations payload specs _ h).1, ?_⟩
  intro hf; simp [applyObligationsIO, hf]

end Rbacx.Translated

#print axioms Rbacx.Translated.ensure_list_size
#print axioms Rbacx.Translated.set_by_path
#print axioms Rbacx.Translated.set_by_path_pathStr
#print axioms Rbacx.Translated.apply_obligations
#print axioms Rbacx.Translated.apply_obligations_none
#print axioms Rbacx.Translated.apply_obligations_io
