import Rbacx.Generated
import Rbacx.Proofs.AsgiTranslated
import Rbacx.Properties.C20
/-!
  Per-run obligation (C20): the ASGI MIDDLEWARE, `RbacxMiddleware.__call__` and `_send_json` of adapters/asgi.py as they are written NOW.
  harness/pytolean_trace.py (plugin `extractors/src_translation_asgi.py`) translates the two methods statement by statement into
  ACTION TRACES `Rbacx.Generated.Src.asgi_call` / `Src.asgi_send_json` (Model/PyTrace.lean): the list of effects in program order
  (`scope["rbacx_guard"] = self.guard`, every `await send(msg)`, `await self.app(scope, receive, send)`) and how the call ended
  (`returned` / `raised cls`).  `self.build_env(scope)` and `await self.guard.evaluate_async(…)` are not translated but parameters giving
  the call's OUTCOME (`.ok v` / `.error cls`); `json.dumps({"detail": "Forbidden"})` is a constant computed by CPython at translation time.

  Proved here, about the TRANSLATED SOURCE:
  * `asgi_send_json`: `_send_json` sends exactly the start message (status, the two base headers with the byte length of the body, then
    the extra headers in order) and the body message;
  * `asgi_call`: for every configuration (mode, builder present, add_headers), every scope value, every outcome of the builder (incl. a
    result that does not unpack) and every outcome of the engine (incl. every Decision record), the trace IS the encoding of the model's
    `asgiCall` — effect by effect, headers in the order reason, rule, policy;
  * the C20 clauses re-derived for the translated source: downstream iff allowed, a single generic 403, the body is a constant, headers
    only when enabled, errors block downstream, pass-through, the guard is attached first.
-/
namespace Rbacx.Translated
open Rbacx Rbacx.Py Rbacx.PyT Rbacx.Generated PyVal

/-! ### (A) `_send_json` -/

/-- `_send_json(send, status, payload, extra_headers=hs)`: start message with the base headers (content-length = the UTF-8 byte count of
    `json.dumps(payload)`) followed by `hs`, then the body message; for every channel, status, JSON text and header list -/
theorem asgi_send_json (o : Oracle) (ch : String) (status : Nat) (body : String) (hs : List (String × String)) :
    Src.asgi_send_json o ch (.int status) (.str body) (.list (hs.map encHeader)) =
      eff (.send ch (startMsg status ([("content-type", "application/json; charset=utf-8"),
                                       ("content-length", toString body.utf8ByteSize)] ++ hs)))
        (eff (.send ch (bodyMsg body)) done) := by
  unfold Src.asgi_send_json
  simp only [extend_headers, encode_str]
  rfl

/-! ### (B) the diagnostic headers -/

/-- the header statements of `__call__` on an encoded Decision compute the model's `diagHeaders` (order: reason, rule, policy; each
    only when truthy) -/
theorem diag_headers (o : Oracle) (d : Decision) (add : Bool) :
    (if (PyVal.bool add).truthy then
        let headers := (if ((Rbacx.Py.attr (encDecision d) "reason")).truthy then
            let headers := (Rbacx.PyT.append (PyVal.list []) (PyVal.list [(Rbacx.PyT.bytesOf "x-rbacx-reason"), (Rbacx.PyT.encode (Rbacx.Py.strO o (Rbacx.Py.attr (encDecision d) "reason")))]))
            headers
          else
            (PyVal.list []))
        let rule_id := (Rbacx.Py.getattrD (encDecision d) "rule_id" PyVal.none)
        let headers := (if (rule_id).truthy then
            let headers := (Rbacx.PyT.append headers (PyVal.list [(Rbacx.PyT.bytesOf "x-rbacx-rule"), (Rbacx.PyT.encode (Rbacx.Py.strO o rule_id))]))
            headers
          else
            headers)
        let policy_id := (Rbacx.Py.getattrD (encDecision d) "policy_id" PyVal.none)
        let headers := (if (policy_id).truthy then
            let headers := (Rbacx.PyT.append headers (PyVal.list [(Rbacx.PyT.bytesOf "x-rbacx-policy"), (Rbacx.PyT.encode (Rbacx.Py.strO o policy_id))]))
            headers
          else
            headers)
        headers
      else
        (PyVal.list [])) = .list ((if add then diagHeaders o d else []).map encHeader) := by
  have hr : Rbacx.Py.attr (encDecision d) "reason" = .str d.reason := rfl
  have hrule : Rbacx.Py.getattrD (encDecision d) "rule_id" PyVal.none = d.ruleId := rfl
  have hpol : Rbacx.Py.getattrD (encDecision d) "policy_id" PyVal.none = d.policyId := rfl
  simp only [hr, hrule, hpol, truthy_bool]
  cases add
  · rfl
  · simp only [if_true, diagHeaders, encode_strO, strO_str]
    have ht : (PyVal.str d.reason).truthy = (d.reason != "") := rfl
    rw [ht]
    cases (d.reason != "") <;> cases d.ruleId.truthy <;> cases d.policyId.truthy <;> rfl

/-! ### (C) `__call__` -/

/-- what the hypotheses of `asgi_call` say: the builder's outcome, unpacked by the source into four names, is the model's builder
    outcome (the request dataclasses of `req`, or the class that was raised — by the builder or by the unpacking) -/
def BuilderAgrees (out : Except String PyVal) (b : Except String Request) : Prop :=
  PyT.unpack 4 out = b.map encRequest4

/-- the engine's outcome on the built request is the model's (`Decision` records as `encDecision`) -/
def EngineAgrees (ev : PyVal → PyVal → PyVal → PyVal → Except String PyVal) (engine : Request → Except String Decision) : Prop :=
  ∀ req, ev (encSubject req) (encAction req) (encResource req) (encContext req) = (engine req).map encDecision

/-- **the translated `__call__` IS the model's `asgiCall`** — for every oracle, configuration `cfg` (`self.mode` a str, `self.build_env`
    None exactly when the model has no builder, `self.add_headers` a bool), every guard object, every `scope` value (its `"type"` entry
    is the model's scope type; absent = None), every builder outcome and every engine outcome: the effects agree one by one and the
    call ends the same way -/
theorem asgi_call (o : Oracle) (cfg : AsgiCfg) (guard benv scope : PyVal)
    (build : PyVal → Except String PyVal) (ev : PyVal → PyVal → PyVal → PyVal → Except String PyVal)
    (b : Except String Request) (engine : Request → Except String Decision)
    (hbenv : benv.isNone = !cfg.hasBuilder)
    (hb : BuilderAgrees (build (Py.setItem scope "rbacx_guard" guard)) b)
    (he : EngineAgrees ev engine) :
    Src.asgi_call o build ev guard (.str cfg.mode) benv (.bool cfg.addHeaders) scope =
      encAsgiTrace guard (asgiCall o cfg (Py.get scope "type") b engine) := by
  unfold Src.asgi_call asgiCall
  simp only [get_type_setItem, enforce_test cfg _ benv hbenv]
  by_cases hen : (pyEq (Py.get scope "type") (.str "http") && cfg.mode == "enforce" && cfg.hasBuilder) = true
  · simp only [hen, if_true]
    rw [hb]
    cases b with
    | error cls => rfl
    | ok req =>
      simp only [Except.map, encRequest4]
      rw [he req]
      cases hd : engine req with
      | error cls => rfl
      | ok d =>
        simp only [Except.map]
        have ha : (pnot (Py.attr (encDecision d) "allowed")).truthy = !d.allowed := rfl
        rw [ha]
        cases hal : d.allowed
        · simp only [Bool.not_false, if_true]
          have := diag_headers o d cfg.addHeaders
          simp only [append_list] at this ⊢
          rw [this, show (PyVal.int 403) = PyVal.int ((403 : Nat) : Int) from rfl, asgi_send_json]
          rfl
        · rfl
  · have hen' : (pyEq (Py.get scope "type") (.str "http") && cfg.mode == "enforce" && cfg.hasBuilder) = false := by simpa using hen
    simp only [hen', Bool.false_eq_true, if_false]
    rfl

/-! ### (D) the C20 clauses, about the translated source

  `Agrees`: the inputs of the translated `__call__` describe the model's configuration and collaborators. -/

structure Agrees (cfg : AsgiCfg) (guard benv scope : PyVal) (build : PyVal → Except String PyVal)
    (ev : PyVal → PyVal → PyVal → PyVal → Except String PyVal) (b : Except String Request)
    (engine : Request → Except String Decision) : Prop where
  /-- `self.build_env` is None exactly when the model has no builder -/
  benv : benv.isNone = !cfg.hasBuilder
  /-- `self.build_env(scope)` — called on the scope that carries the guard — then the 4-way unpacking, is the model's builder outcome -/
  builder : BuilderAgrees (build (Py.setItem scope "rbacx_guard" guard)) b
  /-- `self.guard.evaluate_async` on the built request is the model's engine outcome -/
  engine : EngineAgrees ev engine

variable {o : Oracle} {cfg : AsgiCfg} {guard benv scope : PyVal} {build : PyVal → Except String PyVal}
  {ev : PyVal → PyVal → PyVal → PyVal → Except String PyVal} {b : Except String Request} {engine : Request → Except String Decision}

theorem asgi_call_of (h : Agrees cfg guard benv scope build ev b engine) :
    Src.asgi_call o build ev guard (.str cfg.mode) benv (.bool cfg.addHeaders) scope =
      encAsgiTrace guard (asgiCall o cfg (Py.get scope "type") b engine) :=
  asgi_call o cfg guard benv scope build ev b engine h.benv h.builder h.engine

/-- **the guard is attached to the scope, first** — every input, no hypothesis at all -/
theorem asgi_guard_injected (o : Oracle) (build : PyVal → Except String PyVal) (ev : PyVal → PyVal → PyVal → PyVal → Except String PyVal)
    (guard mode benv add scope : PyVal) :
    (Src.asgi_call o build ev guard mode benv add scope).effects.head? = some (.setItem "scope" "rbacx_guard" guard) := rfl

/-- **in enforce mode the downstream application is invoked for an HTTP request iff the engine allowed it** -/
theorem asgi_downstream_iff_allowed {req : Request} {d : Decision} (h : Agrees cfg guard benv scope build ev (.ok req) engine)
    (hen : C20.Enforcing cfg (Py.get scope "type")) (hd : engine req = .ok d) :
    downstreamEff ∈ (Src.asgi_call o build ev guard (.str cfg.mode) benv (.bool cfg.addHeaders) scope).effects ↔ d.allowed = true := by
  rw [asgi_call_of h]
  simp only [asgiCall, C20.enforcing_cond hen, if_true, hd]
  cases d.allowed <;> simp [encAsgiTrace, encAsgiEff, effects_eff, done, downstreamEff]

/-- **otherwise exactly one 403: the start message, then one body message with the generic Forbidden document; nothing else, and the
    call returns** -/
theorem asgi_single_403 {req : Request} {d : Decision} (h : Agrees cfg guard benv scope build ev (.ok req) engine)
    (hen : C20.Enforcing cfg (Py.get scope "type")) (hd : engine req = .ok d) (hna : d.allowed = false) :
    ∃ hdrs, Src.asgi_call o build ev guard (.str cfg.mode) benv (.bool cfg.addHeaders) scope =
      eff (.setItem "scope" "rbacx_guard" guard) (eff (.send "send" (startMsg 403 hdrs)) (eff (.send "send" (bodyMsg forbiddenBody)) done)) := by
  obtain ⟨hdrs, hm⟩ := C20.c20_single_403 o cfg _ req d engine hen hd hna
  exact ⟨hdrs, by rw [asgi_call_of h, hm]; rfl⟩

/-- **every body message is the generic document** — it never depends on the decision (reason, rule id, policy id, obligations) -/
theorem asgi_body_is_generic (h : Agrees cfg guard benv scope build ev b engine) (ch : String) (msg : PyVal)
    (hm : Eff.send ch msg ∈ (Src.asgi_call o build ev guard (.str cfg.mode) benv (.bool cfg.addHeaders) scope).effects)
    (ht : Py.get msg "type" = .str "http.response.body") : msg = bodyMsg forbiddenBody := by
  rw [asgi_call_of h] at hm
  obtain ⟨_, hs | hb⟩ := send_of_encAsgiTrace _ _ _ _ hm
  · obtain ⟨st, hs, _, rfl⟩ := hs
    rw [startMsg_type] at ht
    simp at ht
  · obtain ⟨body, hmem, rfl⟩ := hb
    rw [C20.c20_body_is_generic o cfg _ b engine body hmem]

/-- **diagnostics appear only as headers and only when enabled**: with `add_headers` off every start message is the 403 with the two
    base headers -/
theorem asgi_headers_only_when_enabled (h : Agrees cfg guard benv scope build ev b engine) (hoff : cfg.addHeaders = false)
    (ch : String) (msg : PyVal)
    (hm : Eff.send ch msg ∈ (Src.asgi_call o build ev guard (.str cfg.mode) benv (.bool cfg.addHeaders) scope).effects)
    (ht : Py.get msg "type" = .str "http.response.start") : msg = startMsg 403 baseHeaders := by
  rw [asgi_call_of h] at hm
  obtain ⟨_, hs | hb⟩ := send_of_encAsgiTrace _ _ _ _ hm
  · obtain ⟨st, hs, hmem, rfl⟩ := hs
    obtain ⟨rfl, rfl⟩ := C20.c20_headers_only_when_enabled o cfg _ b engine st hs hoff hmem
    rfl
  · obtain ⟨body, _, rfl⟩ := hb
    rw [bodyMsg_type] at ht
    simp at ht

/-- with `add_headers` on, the headers are the base headers followed by reason, rule, policy — each only when truthy, in this order -/
theorem asgi_headers_when_enabled {req : Request} {d : Decision} (h : Agrees cfg guard benv scope build ev (.ok req) engine)
    (hen : C20.Enforcing cfg (Py.get scope "type")) (hd : engine req = .ok d) (hna : d.allowed = false) :
    Src.asgi_call o build ev guard (.str cfg.mode) benv (.bool cfg.addHeaders) scope =
      eff (.setItem "scope" "rbacx_guard" guard)
        (eff (.send "send" (startMsg 403 (baseHeaders ++ (if cfg.addHeaders then diagHeaders o d else []))))
          (eff (.send "send" (bodyMsg forbiddenBody)) done)) := by
  rw [asgi_call_of h]
  simp only [asgiCall, C20.enforcing_cond hen, if_true, hd, hna]
  rfl

/-- **if building the env (or unpacking its result) or evaluating raises, the exception propagates: downstream is not invoked and
    nothing is sent** -/
theorem asgi_errors_block_downstream (h : Agrees cfg guard benv scope build ev b engine) (hen : C20.Enforcing cfg (Py.get scope "type"))
    (herr : (∃ cls, b = .error cls) ∨ (∃ req cls, b = .ok req ∧ engine req = .error cls)) :
    ∃ cls, Src.asgi_call o build ev guard (.str cfg.mode) benv (.bool cfg.addHeaders) scope =
      eff (.setItem "scope" "rbacx_guard" guard) (raised cls) := by
  obtain ⟨cls, hm⟩ := C20.c20_errors_block_downstream o cfg _ b engine hen herr
  exact ⟨cls, by rw [asgi_call_of h, hm]; rfl⟩

/-- a builder that returns something that is not a 4-tuple (e.g. forgot its `return`): TypeError / ValueError at the unpacking — the
    request is not let through.  No hypothesis on the engine. -/
theorem asgi_builder_bad_result (o : Oracle) (cfg : AsgiCfg) (guard benv scope v : PyVal) (build : PyVal → Except String PyVal)
    (ev : PyVal → PyVal → PyVal → PyVal → Except String PyVal) (hbenv : benv.isNone = !cfg.hasBuilder)
    (hen : C20.Enforcing cfg (Py.get scope "type")) (hv : build (Py.setItem scope "rbacx_guard" guard) = .ok v)
    (hbad : PyT.iterable v = false ∨ (Py.iter v).length ≠ 4) :
    ∃ cls, (cls = "TypeError" ∨ cls = "ValueError") ∧
      Src.asgi_call o build ev guard (.str cfg.mode) benv (.bool cfg.addHeaders) scope = eff (.setItem "scope" "rbacx_guard" guard) (raised cls) := by
  have hu : ∃ cls, (cls = "TypeError" ∨ cls = "ValueError") ∧ PyT.unpack 4 (build (Py.setItem scope "rbacx_guard" guard)) = .error cls := by
    rw [hv]
    unfold PyT.unpack
    rcases hbad with hb | hb
    · exact ⟨"TypeError", Or.inl rfl, by simp [hb]⟩
    · by_cases hi : PyT.iterable v = true
      · exact ⟨"ValueError", Or.inr rfl, by simp [hi, hb]⟩
      · exact ⟨"TypeError", Or.inl rfl, by simp [hi]⟩
  obtain ⟨cls, hc, hu⟩ := hu
  refine ⟨cls, hc, ?_⟩
  unfold Src.asgi_call
  simp only [get_type_setItem, enforce_test cfg _ benv hbenv, C20.enforcing_cond hen, if_true, hu]

/-- **non-HTTP scopes, inject mode and a missing env builder pass through with the engine attached** — the builder and the engine are
    not consulted: no hypothesis on them -/
theorem asgi_passthrough (o : Oracle) (cfg : AsgiCfg) (guard benv scope : PyVal) (build : PyVal → Except String PyVal)
    (ev : PyVal → PyVal → PyVal → PyVal → Except String PyVal) (hbenv : benv.isNone = !cfg.hasBuilder)
    (hp : PyVal.pyEq (Py.get scope "type") (.str "http") = false ∨ cfg.mode ≠ "enforce" ∨ cfg.hasBuilder = false) :
    Src.asgi_call o build ev guard (.str cfg.mode) benv (.bool cfg.addHeaders) scope =
      eff (.setItem "scope" "rbacx_guard" guard) (eff downstreamEff done) := by
  unfold Src.asgi_call
  simp only [get_type_setItem, enforce_test cfg _ benv hbenv]
  have : (pyEq (Py.get scope "type") (.str "http") && cfg.mode == "enforce" && cfg.hasBuilder) = false := by
    rcases hp with h | h | h
    · simp [h]
    · have : (cfg.mode == "enforce") = false := by simpa using h
      simp [this]
    · simp [h]
  simp only [this, Bool.false_eq_true, if_false]
  rfl

/-! ### (E) non-vacuity -/

/-- the hypotheses are satisfiable for every configuration, guard, scope, request and Decision: a builder that returns the 4-tuple of
    the request dataclasses and an engine that answers `d` -/
theorem agrees_example (cfg : AsgiCfg) (guard scope : PyVal) (req : Request) (d : Decision) :
    Agrees cfg guard (if cfg.hasBuilder then .str "<builder>" else PyVal.none) scope (fun _ => .ok (.list (encRequest4 req)))
      (fun _ _ _ _ => .ok (encDecision d)) (.ok req) (fun _ => .ok d) :=
  ⟨by cases cfg.hasBuilder <;> rfl, rfl, fun _ => rfl⟩

/-- a builder that forgot its `return` (returns None) is the model's builder raising TypeError; one that raises is that class -/
example : BuilderAgrees (.ok PyVal.none) (.error "TypeError") := rfl
example (cls : String) : BuilderAgrees (.error cls) (.error cls) := rfl
example : BuilderAgrees (.ok (.list [.int 1, .int 2])) (.error "ValueError") := rfl

/-- a denied request with header diagnostics on, evaluated: the 403 with five headers, then the generic body -/
example (o : Oracle) :
    Src.asgi_call o (fun _ => .ok (.list [.none, .none, .none, .none]))
      (fun _ _ _ _ => .ok (encDecision { allowed := false, effect := "deny", obligations := [], challenge := .none, ruleId := .str "r1",
                                         policyId := .str "p", reason := "explicit_deny" }))
      (.str "<guard>") (.str "enforce") (.str "<builder>") (.bool true) (.dict [("type", .str "http")]) =
      eff (.setItem "scope" "rbacx_guard" (.str "<guard>"))
        (eff (.send "send" (startMsg 403 (baseHeaders ++ [("x-rbacx-reason", "explicit_deny"), ("x-rbacx-rule", "r1"), ("x-rbacx-policy", "p")])))
          (eff (.send "send" (bodyMsg "{\"detail\": \"Forbidden\"}")) done)) := by
  rfl

end Rbacx.Translated

#print axioms Rbacx.Translated.asgi_send_json
#print axioms Rbacx.Translated.diag_headers
#print axioms Rbacx.Translated.asgi_call
#print axioms Rbacx.Translated.asgi_guard_injected
#print axioms Rbacx.Translated.asgi_downstream_iff_allowed
#print axioms Rbacx.Translated.asgi_single_403
#print axioms Rbacx.Translated.asgi_body_is_generic
#print axioms Rbacx.Translated.asgi_headers_only_when_enabled
#print axioms Rbacx.Translated.asgi_headers_when_enabled
#print axioms Rbacx.Translated.asgi_errors_block_downstream
#print axioms Rbacx.Translated.asgi_builder_bad_result
#print axioms Rbacx.Translated.asgi_passthrough
#print axioms Rbacx.Translated.agrees_example
