import Rbacx.Generated
import Driver.Codec
/-!
  Per-run evaluator of the TRANSLATED source (`Rbacx.Generated.Src.*`): one JSON line in (`{"fn": name, "args": [values…]}`),
  one JSON line out (the value the translation computes).  The harness runs the real Python functions on the same arguments
  and compares: this validates the translator (harness/pytolean.py) and the meaning given to Python's operations in
  Model/PyLib.lean against CPython — the two things the obligation `C03_translated` trusts.
  Run with `lake env lean --run Rbacx/Run/SrcEval.lean`.
-/
open Lean Codec Rbacx Rbacx.Generated

def evalSrc (fn : String) (args : List PyVal) : Except String PyVal :=
  match fn, args with
  | "_actions", [a] => .ok (Src.actions a)
  | "_resource_types", [a] => .ok (Src.resource_types a)
  | "_has_id", [a] => .ok (Src.has_id a)
  | "_has_attrs", [a] => .ok (Src.has_attrs a)
  | "_type_matches", [a, b] => .ok (Src.type_matches a b)
  | "_categorize", [a, b] => .ok (Src.categorize a b)
  | "match_actions", [a, b] => .ok (Src.match_actions a b)
  | "_is_applicable", [a] => .ok (Src.is_applicable a)
  | "_detect_format", [a, b, c] => .ok (Src.detect_format a b c)
  | _, _ => .error s!"unknown function or arity: {fn}"

partial def loop (hin hout : IO.FS.Stream) : IO Unit := do
  let line ← hin.getLine
  if line.isEmpty then return ()
  let out : Json :=
    match Json.parse line with
    | .error e => Json.mkObj [("error", .str e)]
    | .ok j =>
      match (match field j "args" with | .arr xs => xs.toList.mapM decVal | _ => .error "args") with
      | .error e => Json.mkObj [("error", .str e)]
      | .ok args =>
        match evalSrc (fieldStr j "fn") args with
        | .ok v => Json.mkObj [("value", encVal v)]
        | .error e => Json.mkObj [("error", .str e)]
  hout.putStrLn out.compress
  loop hin hout

def main : IO Unit := do
  let hin ← IO.getStdin
  let hout ← IO.getStdout
  loop hin hout
  hout.flush
