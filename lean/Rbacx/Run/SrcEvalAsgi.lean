import Rbacx.Generated
import Driver.Codec
/-!
  Per-run evaluator of the TRANSLATED ASGI MIDDLEWARE (`Rbacx.Generated.Src.asgi_call`, an action trace — Model/PyTrace.lean): one JSON
  line in —
  `{"self": {"guard": v, "mode": v, "build_env": v, "add_headers": v}, "args": {"scope": v}, "oracle": {"str": […], "fos": […]},
    "ext": {parameter: {"ok": value} | {"raised": "<class>"}, …}}`
  (`self`: the attributes `self.<a>` the method reads; `args`: its value parameters; `ext`: per external call — named by its Lean
  parameter, `build_env` / `guard_evaluate_async` — the OUTCOME of the call: the value it returned, or the class it raised; a
  `Decision` is the JSON object of its fields) — one JSON line out:
  `{"effects": [{"e": "setItem", "obj", "key", "value"} | {"e": "send", "chan", "msg"} | {"e": "call", "callee", "args"} …],
    "ending": "returned" | {"raised": cls}}`; a bytes value is `{"__bytes__": text}`.
  The generated dispatcher `Src.evalAsgi` follows the method's current signature.  The harness (`translated_vs_python` in
  harness/props/c20.py) drives the REAL middleware with a stub app / builder / engine that behave as the outcomes say and compares the
  observable actions: this validates the readings the obligation `C20_translated` trusts (effects as a trace, outcomes as inputs, the
  unpacking as part of the raising point, the callee spliced in, bytes as their text, the constant evaluated at translation time)
  and Model/PyLib.lean.  Kept apart from the other evaluators so that a change to asgi.py cannot break the other runs.
  Run with `lake env lean --run Rbacx/Run/SrcEvalAsgi.lean`.
-/
open Lean Codec Rbacx Rbacx.Generated

/-- the outcomes of the external calls: parameter name ↦ `.ok v` (returned) / `.error cls` (raised; also for a name that is not listed) -/
def decOutcomesE (j : Json) : Except String (String → Except String PyVal) := do
  let entries : List (String × Json) := match j with | .obj kvs => kvs.toList | _ => []
  let rows : List (String × Except String PyVal) ← entries.mapM fun (kv : String × Json) => do
    match kv.2.getObjVal? "ok" with
    | .ok v => do let x ← decVal v; pure (kv.1, Except.ok x)
    | .error _ => pure (kv.1, Except.error (fieldStr kv.2 "raised" "Exception"))
  pure fun name => match rows.find? (fun e => e.1 == name) with | some e => e.2 | none => .error "NotListed"

/-- a JSON object of values as a lookup by name (`None` for a name that is not listed) -/
def decNamed (j : Json) : Except String (String → PyVal) := do
  let entries : List (String × Json) := match j with | .obj kvs => kvs.toList | _ => []
  let rows : List (String × PyVal) ← entries.mapM fun (kv : String × Json) => do let x ← decVal kv.2; pure (kv.1, x)
  pure fun name => match rows.find? (fun e => e.1 == name) with | some e => e.2 | none => PyVal.none

def encEff : Rbacx.PyT.Eff → Json
  | .setItem obj key v => Json.mkObj [("e", .str "setItem"), ("obj", .str obj), ("key", .str key), ("value", encVal v)]
  | .send ch msg => Json.mkObj [("e", .str "send"), ("chan", .str ch), ("msg", encVal msg)]
  | .call callee args => Json.mkObj [("e", .str "call"), ("callee", .str callee), ("args", .arr (args.map Json.str).toArray)]

def encTrace (t : Rbacx.PyT.Trace) : Json :=
  Json.mkObj [("effects", .arr (t.effects.map encEff).toArray),
              ("ending", match t.ending with | .returned => .str "returned" | .raised cls => Json.mkObj [("raised", .str cls)])]

partial def loop (hin hout : IO.FS.Stream) : IO Unit := do
  let line ← hin.getLine
  if line.isEmpty then return ()
  let out : Json :=
    match Json.parse line with
    | .error e => Json.mkObj [("error", .str e)]
    | .ok j =>
      match decNamed (field j "self"), decNamed (field j "args"), decOracle (field j "oracle"), decOutcomesE (field j "ext") with
      | .error e, _, _, _ => Json.mkObj [("error", .str e)]
      | _, .error e, _, _ => Json.mkObj [("error", .str e)]
      | _, _, .error e, _ => Json.mkObj [("error", .str e)]
      | _, _, _, .error e => Json.mkObj [("error", .str e)]
      | .ok self, .ok args, .ok o, .ok ext => encTrace (Src.evalAsgi o ext self args)
  hout.putStrLn out.compress
  loop hin hout

def main : IO Unit := do
  let hin ← IO.getStdin
  let hout ← IO.getStdout
  loop hin hout
  hout.flush
