import Rbacx.Generated
import Driver.Codec
/-!
  Per-run evaluator of the TRANSLATED CACHE METHODS (`Rbacx.Generated.Src.cache_*`, called through the generated `Src.cache_call`).
  One JSON line in: `{"maxsize": n, "state": [[key, [field values…]], …], "calls": [{"m": method, "nows": [clock readings in call-site
  order], "args": [values…]}, …]}` — the calls are run one after the other, each on the dict the previous one left; one JSON line out:
  `{"steps": [{"out": ["ret", value] | ["raised", class], "state": [[key, [field values…]], …]}, …]}`.  An entry object is the record
  of the dataclass fields `Src.cache_entry_fields`, in that order.  The harness (`translated_vs_python` in harness/props/c15.py) drives
  the REAL `DefaultInMemoryCache` through the same calls with an injected integer clock, handing every call site the value the real
  call read there, and compares result, key order and entries after every call: this validates the translator
  (harness/pytolean_methods.py) and Model/PyOrdDict.lean — what the obligation `C15_translated` trusts.
  Run with `lake env lean --run Rbacx/Run/SrcEvalCache.lean`.
-/
open Lean Codec Rbacx Rbacx.Generated

def decEntry (j : Json) : Except String (String × PyVal) :=
  match j with
  | .arr #[.str k, .arr vs] => do
    let vals ← vs.toList.mapM decVal
    if vals.length != Src.cache_entry_fields.length then .error "entry arity"
    else .ok (k, Rbacx.PyM.record (Src.cache_entry_fields.zip vals))
  | _ => .error "entry shape"

def encEntry (kv : String × PyVal) : Json :=
  Json.arr #[.str kv.1, Json.arr (Src.cache_entry_fields.map fun f => encVal (Rbacx.PyM.field kv.2 f)).toArray]

def decInts (j : Json) : Except String (List Int) :=
  match j with
  | .arr xs => xs.toList.mapM fun x => match x.getInt? with | .ok n => .ok n | .error e => .error e
  | _ => .error "nows"

def runCalls (maxsize : Int) : Rbacx.PyM.OrdDict → List Json → Except String (List Json)
  | _, [] => .ok []
  | s, c :: cs => do
    let nows ← decInts (field c "nows")
    let args ← (match field c "args" with | .arr xs => xs.toList.mapM decVal | _ => .error "args")
    match Src.cache_call maxsize (fieldStr c "m") nows s args with
    | none => .error s!"unknown method or arity: {fieldStr c "m"}/{nows.length} clock readings/{args.length} arguments"
    | some (s', out) =>
      let o : Json := match out with
        | .ret v => Json.arr #[.str "ret", encVal v]
        | .raised e => Json.arr #[.str "raised", .str e]
      let rest ← runCalls maxsize s' cs
      .ok (Json.mkObj [("out", o), ("state", Json.arr (s'.map encEntry).toArray)] :: rest)

partial def loop (hin hout : IO.FS.Stream) : IO Unit := do
  let line ← hin.getLine
  if line.isEmpty then return ()
  let out : Json :=
    match Json.parse line with
    | .error e => Json.mkObj [("error", .str e)]
    | .ok j =>
      match (fieldArr j "state").mapM decEntry, (field j "maxsize").getInt? with
      | .error e, _ => Json.mkObj [("error", .str e)]
      | _, .error e => Json.mkObj [("error", .str e)]
      | .ok s, .ok m =>
        match runCalls m s (fieldArr j "calls") with
        | .ok steps => Json.mkObj [("steps", Json.arr steps.toArray)]
        | .error e => Json.mkObj [("error", .str e)]
  hout.putStrLn out.compress
  loop hin hout

def main : IO Unit := do
  let hin ← IO.getStdin
  let hout ← IO.getStdout
  loop hin hout
  hout.flush
