import Rbacx.Generated
import Driver.Codec
/-!
  Per-run evaluator of the TRANSLATED DECISION-CACHE PROTOCOL (`Rbacx.Generated.Src.guard_normalize_env`, `guard_cache_key`,
  `engine_cache_proto`, `guard_set_policy`): one JSON line in —
  `{"fn": name, "args": [values…], "oracle": {"str": […], "fos": […]}, "ext": {parameter: {"ok": value} | {"raised": true}, …},
    "flags": {parameter: bool, …}}`,
  the arguments in the order the target's doc comment in Generated.lean lists its inputs — one JSON line out:
  `{"out": value} | {"raised": true}` plus `"trace": [["acq", lock] | ["rel", lock] | ["rd", attr] | ["wr", attr, value] |
  ["call", label, [args…]] …]`.  `ext` gives, per external of the target (named by its Lean parameter), the OUTCOME of the call: the
  value it returned, or that it raised; the generated dispatcher `Src.evalCacheProto` answers the call with it whatever the arguments
  (`dumps_other` / `repr_of`: what CPython's `json.dumps(…)` / `repr()` did on THIS env).
  The harness (`translated_vs_python` in harness/props/c08.py) runs the SAME statements with CPython (pytolean_proto.as_python; stub
  cache / `_decide_async` that return the outcome's value or raise and record the calls) and compares value and trace: this validates
  the readings the obligation `C08_translated` trusts (externals raising in the middle of a `try`, `try/finally`, the lock blocks, the
  two reads of `_policy_gen`, spliced methods) and Model/PyProto.lean.  Run with `lake env lean --run Rbacx/Run/SrcEvalCacheProto.lean`.
-/
open Lean Codec Rbacx Rbacx.Generated

def decOutcomes (j : Json) : Except String (String → Option PyVal) := do
  let entries : List (String × Json) := match j with | .obj kvs => kvs.toList | _ => []
  let rows : List (String × Option PyVal) ← entries.mapM fun (kv : String × Json) => do
    match kv.2.getObjVal? "ok" with
    | .ok v => do let x ← decVal v; pure (kv.1, some x)
    | .error _ => pure (kv.1, none)
  pure fun name => match rows.find? (fun e => e.1 == name) with | some e => e.2 | none => none

def decFlags (j : Json) : String → Bool :=
  let entries : List (String × Json) := match j with | .obj kvs => kvs.toList | _ => []
  fun name => match entries.find? (fun e => e.1 == name) with | some (_, .bool b) => b | _ => false

def encEff : PyP.Eff → Json
  | .acq l => .arr #[.str "acq", .str l]
  | .rel l => .arr #[.str "rel", .str l]
  | .rd a => .arr #[.str "rd", .str a]
  | .wr a v => .arr #[.str "wr", .str a, encVal v]
  | .call c args => .arr #[.str "call", .str c, .arr (args.map encVal).toArray]

partial def loop (hin hout : IO.FS.Stream) : IO Unit := do
  let line ← hin.getLine
  if line.isEmpty then return ()
  let out : Json :=
    match Json.parse line with
    | .error e => Json.mkObj [("error", .str e)]
    | .ok j =>
      match (match field j "args" with | .arr xs => xs.toList.mapM decVal | _ => .error "args"), decOracle (field j "oracle"),
            decOutcomes (field j "ext") with
      | .error e, _, _ => Json.mkObj [("error", .str e)]
      | _, .error e, _ => Json.mkObj [("error", .str e)]
      | _, _, .error e => Json.mkObj [("error", .str e)]
      | .ok args, .ok o, .ok ext =>
        let fn := fieldStr j "fn"
        match Src.evalCacheProto o ext (decFlags (field j "flags")) fn args with
        | some r =>
          let tr : Json := .arr (r.trace.map encEff).toArray
          match r.out with
          | some v => Json.mkObj [("out", encVal v), ("trace", tr)]
          | none => Json.mkObj [("raised", .bool true), ("trace", tr)]
        | none => Json.mkObj [("error", .str s!"unknown target or arity: {fn}/{args.length}")]
  hout.putStrLn out.compress
  loop hin hout

def main : IO Unit := do
  let hin ← IO.getStdin
  let hout ← IO.getStdout
  loop hin hout
  hout.flush
