import Rbacx.Generated
import Driver.CmdC17
/-!
  Per-run evaluator of the TRANSLATED parser dispatch (store/policy_loader.py) and command functions (cli.py) — `Rbacx.Generated.Src.parse_yaml`,
  `parse_policy_text`, `parse_policy_bytes`, `read_text_from_path_or_stdin`, `load_policy_from_arg`, `lint_doc`, `validate_doc`, `cmd_lint`,
  `cmd_validate`, `cmd_check`, `cli_main` (exception-passing with exception objects, harness/pytolean_cli.py): one JSON line in —
  `{"fn": name, "args": [values…], "ext": {"<external>": [[[arguments…], res], …], …}}`, `res` = `{"ok": value}` | `{"err": {"cls": C, "msg": M,
  "code": value}}` — one JSON line out, a `res` again: what the translation computes.
  `ext` carries the EXTERNAL collaborators (parameters of the translation) as tables: the outcome the harness's STUB gives on these arguments
  (a miss shows up as the impossible exception class `ExtMiss`).  `_detect_format` is `Src.detect_format` (the plugin `src_translation`).
  The harness (`translated_cli_vs_python` in harness/props/c17.py) drives the REAL functions of rbacx.cli / rbacx.store.policy_loader with
  the same stubs and compares: this validates the translator's reading and Model/PyCli.lean — what the obligation `C17_cli_translated`
  trusts.  Run with `lake env lean --run Rbacx/Run/SrcEvalCli.lean`.
-/
open Lean Codec Rbacx Rbacx.Generated Rbacx.PyX CliCodec

def evalCli (x : String → List PyVal → Res) (fn : String) (args : List PyVal) : Except String Res :=
  let det := Src.detect_format
  let open_read := fun p => x "open_read" [p]
  let stdin_read := x "stdin_read" []
  let bytes_decode := fun d e => x "bytes_decode" [d, e]
  let json_loads := fun t => x "json_loads" [t]
  let import_yaml := x "import_yaml" []
  let yaml_safe_load := fun t => x "yaml_safe_load" [t]
  let pra := fun s => x "_parse_require_attrs" [s]
  let validate := fun d => x "validate_policy" [d]
  let ap := fun d r => x "analyze_policy" [d, r]
  let aps := fun d r => x "analyze_policyset" [d, r]
  match fn, args with
  | "_parse_yaml", [t] => .ok (Src.parse_yaml t import_yaml yaml_safe_load)
  | "parse_policy_text", [t, f, c, m] => .ok (Src.parse_policy_text t f c m det json_loads import_yaml yaml_safe_load)
  | "parse_policy_bytes", [d, f, c, m, e] => .ok (Src.parse_policy_bytes d f c m e det bytes_decode json_loads import_yaml yaml_safe_load)
  | "_read_text_from_path_or_stdin", [p] => .ok (Src.read_text_from_path_or_stdin p open_read stdin_read)
  | "_load_policy_from_arg", [p] => .ok (Src.load_policy_from_arg p det open_read stdin_read json_loads import_yaml yaml_safe_load)
  | "_lint_doc", [d, ps, r] => .ok (Src.lint_doc d ps r ap aps)
  | "_validate_doc", [d, ps] => .ok (Src.validate_doc d ps validate)
  | "cmd_lint", [a] => .ok (Src.cmd_lint a det open_read stdin_read json_loads import_yaml yaml_safe_load pra ap aps)
  | "cmd_validate", [a] => .ok (Src.cmd_validate a det open_read stdin_read json_loads import_yaml yaml_safe_load validate)
  | "cmd_check", [a] => .ok (Src.cmd_check a det open_read stdin_read json_loads import_yaml yaml_safe_load pra validate ap aps)
  | "main", [argv] => .ok (Src.cli_main argv (x "build_parser" []) (fun a => x "parse_args" [a]) (fun a => x "call_func" [a]))
  | _, _ => .error s!"unknown function or arity: {fn}/{args.length}"

partial def loop (hin hout : IO.FS.Stream) : IO Unit := do
  let line ← hin.getLine
  if line.isEmpty then return ()
  let out : Json :=
    match Json.parse line with
    | .error e => Json.mkObj [("error", .str e)]
    | .ok j =>
      match (match field j "args" with | .arr xs => xs.toList.mapM decVal | _ => .error "args"), decTables (field j "ext") with
      | .ok args, .ok x =>
        (match evalCli x (fieldStr j "fn") args with
         | .ok r => encResX r
         | .error e => Json.mkObj [("error", .str e)])
      | .error e, _ => Json.mkObj [("error", .str e)]
      | _, .error e => Json.mkObj [("error", .str e)]
  hout.putStrLn out.compress
  loop hin hout

def main : IO Unit := do
  let hin ← IO.getStdin
  let hout ← IO.getStdout
  loop hin hout
  hout.flush
