import Rbacx.Generated
import Driver.Codec
/-!
  Per-run evaluator of THE COMPILER TRANSLATED WHOLE (`Rbacx.Generated.Src.compile_decide` = `compile(policy)(env)`: the function and
  the closure it returns, exception-passing style, harness/pytolean_closure.py, plugin extractors/src_translation_compile.py): one JSON
  line in — `{"fn": "compile_decide", "args": [policy, env], "oracle": {…}, "ext": {"getattr": …, "_parse_dt": …, "rel_branch": …}}`
  (the tables of the externals of the translated `eval_condition`, exactly as for `Run/SrcEvalEvaluators.lean`) — one JSON line out:
  `{"ok": value}` | `{"err": "mismatch"}` | `{"err": "raised:Cls"}`, computed with the budget `size(policy) + 3`, the bound the
  obligation `C03_whole` proves sufficient.
  The harness (`translated_whole_vs_python` in harness/props/c03.py) compares with the REAL `compile(policy)(env)`: the returned dict
  (key order included) or WHICH exception.  This validates the closure / identity / in-place-operation reading of
  harness/pytolean_closure.py and Model/PyIdent.lean — what the obligation `C03_whole` trusts.
  Run with `lake env lean --run Rbacx/Run/SrcEvalCompile.lean`.
-/
open Lean Codec Rbacx Rbacx.Generated

def decRes (j : Json) : Except String (Except CondErr PyVal) :=
  match j.getObjVal? "ok" with
  | .ok v => do let x ← decVal v; pure (.ok x)
  | .error _ =>
    let e := fieldStr j "err"
    if e == "mismatch" then pure (.error .typeMismatch)
    else if e.startsWith "raised:" then pure (.error (.raised (e.drop 7).toString))
    else throw s!"bad result {j.compress}"

def encRes : Except CondErr PyVal → Json
  | .ok v => Json.mkObj [("ok", encVal v)]
  | .error .typeMismatch => Json.mkObj [("err", .str "mismatch")]
  | .error (.raised c) => Json.mkObj [("err", .str ("raised:" ++ c))]

/-- the table of one external function (`[[[arguments…], result], …]`) as a total function of the argument list -/
def decExt (j : Json) : Except String (List PyVal → Except CondErr PyVal) := do
  let entries : List Json := match j with | .arr a => a.toList | _ => []
  let rows : List (List PyVal × Except CondErr PyVal) ← entries.mapM fun (e : Json) =>
    match e with
    | .arr #[.arr args, r] => do let xs ← args.toList.mapM decVal; let y ← decRes r; pure (xs, y)
    | _ => throw "bad ext entry"
  pure fun args => match rows.find? (fun e => e.1 == args) with | some e => e.2 | none => .error (.raised "ExtMiss")

def evalFn (o : Oracle) (ga pd rb : List PyVal → Except CondErr PyVal) (fn : String) (args : List PyVal) :
    Except String (Except CondErr PyVal) :=
  let getattr := fun a b c => ga [a, b, c]
  let parse_dt := fun x s => pd [x, s]
  let rel_branch := fun c e => rb [c, e]
  match fn, args with
  | "compile_decide", [p, env] => .ok (Src.compile_decide o getattr parse_dt rel_branch p env (p.size + 3))
  | _, _ => .error s!"unknown function or arity: {fn}/{args.length}"

partial def loop (hin hout : IO.FS.Stream) : IO Unit := do
  let line ← hin.getLine
  if line.isEmpty then return ()
  let out : Json :=
    match Json.parse line with
    | .error e => Json.mkObj [("error", .str e)]
    | .ok j =>
      let ext := field j "ext"
      match (match field j "args" with | .arr xs => xs.toList.mapM decVal | _ => .error "args"), decOracle (field j "oracle"),
            decExt (field ext "getattr"), decExt (field ext "_parse_dt"), decExt (field ext "rel_branch") with
      | .ok args, .ok o, .ok ga, .ok pd, .ok rb =>
        (match evalFn o ga pd rb (fieldStr j "fn") args with
         | .ok r => encRes r
         | .error e => Json.mkObj [("error", .str e)])
      | .error e, _, _, _, _ => Json.mkObj [("error", .str e)]
      | _, .error e, _, _, _ => Json.mkObj [("error", .str e)]
      | _, _, .error e, _, _ => Json.mkObj [("error", .str e)]
      | _, _, _, .error e, _ => Json.mkObj [("error", .str e)]
      | _, _, _, _, .error e => Json.mkObj [("error", .str e)]
  hout.putStrLn out.compress
  loop hin hout

def main : IO Unit := do
  let hin ← IO.getStdin
  let hout ← IO.getStdout
  loop hin hout
  hout.flush
