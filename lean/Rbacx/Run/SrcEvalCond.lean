import Rbacx.Generated
import Driver.Codec
/-!
  Per-run evaluator of the TRANSLATED CONDITION EVALUATOR (`Rbacx.Generated.Src.eval_condition` and its helpers `is_strict_e`,
  `ensure_str`, `as_collection`, `ensure_numeric_strict`, `resolve`; exception-passing style, harness/pytolean_except.py): one JSON
  line in —
  `{"fn": name, "args": [values…], "oracle": {"str": […], …}, "ext": {"getattr": [[[a, n, d], res], …], "_parse_dt": [[[x, strict], res], …],
    "rel_branch": [[[cond, env], res], …]}}`, `res` = `{"ok": value}` | `{"err": "mismatch"}` | `{"err": "raised:Cls"}` —
  one JSON line out, a `res` again: what the translation computes (`eval_condition` with the budget `size(cond) + 1`, the bound the
  obligation `C04_translated` proves sufficient).
  `ext` carries the EXTERNAL functions (not translated: parameters of the translation) as tables of what the REAL Python did on this very
  input: `getattr` and `_parse_dt` are recorded while the real `eval_condition` runs, `rel_branch` is the real `eval_condition` on every
  sub-condition that has a `rel` key.  A miss shows up as the impossible exception `raised:ExtMiss`.
  The harness (`translated_vs_python` in harness/props/c04.py) compares with the real functions: this validates the translator's
  exception-passing reading and Model/PyExcept.lean — what the obligation `C04_translated` trusts.
  Run with `lake env lean --run Rbacx/Run/SrcEvalCond.lean`.
-/
open Lean Codec Rbacx Rbacx.Generated

def decRes (j : Json) : Except String (Except CondErr PyVal) :=
  match j.getObjVal? "ok" with
  | .ok v => do let x ← decVal v; pure (.ok x)
  | .error _ =>
    let e := fieldStr j "err"
    if e == "mismatch" then pure (.error .typeMismatch)
    else if e.startsWith "raised:" then pure (.error (.raised (e.drop 7).toString))
    else throw s!"bad result {j.compress}"

def encRes : Except CondErr PyVal → Json
  | .ok v => Json.mkObj [("ok", encVal v)]
  | .error .typeMismatch => Json.mkObj [("err", .str "mismatch")]
  | .error (.raised c) => Json.mkObj [("err", .str ("raised:" ++ c))]

/-- the table of one external function (`[[[arguments…], result], …]`) as a total function of the argument list -/
def decExt (j : Json) : Except String (List PyVal → Except CondErr PyVal) := do
  let entries : List Json := match j with | .arr a => a.toList | _ => []
  let rows : List (List PyVal × Except CondErr PyVal) ← entries.mapM fun (e : Json) =>
    match e with
    | .arr #[.arr args, r] => do let xs ← args.toList.mapM decVal; let y ← decRes r; pure (xs, y)
    | _ => throw "bad ext entry"
  pure fun args => match rows.find? (fun e => e.1 == args) with | some e => e.2 | none => .error (.raised "ExtMiss")

def evalCondFn (o : Oracle) (ga pd rb : List PyVal → Except CondErr PyVal) (fn : String) (args : List PyVal) :
    Except String (Except CondErr PyVal) :=
  let getattr := fun a b c => ga [a, b, c]
  let parse_dt := fun x s => pd [x, s]
  let rel_branch := fun c e => rb [c, e]
  match fn, args with
  | "_is_strict", [a] => .ok (Src.is_strict_e a)
  | "_ensure_str", [a, b] => .ok (Src.ensure_str a b)
  | "_as_collection", [a] => .ok (Src.as_collection a)
  | "_ensure_numeric_strict", [a, b] => .ok (Src.ensure_numeric_strict a b)
  | "resolve", [t, env] => .ok (Src.resolve o getattr t env)
  | "eval_condition", [c, env] => .ok (Src.eval_condition o getattr parse_dt rel_branch c env (c.size + 1))
  | _, _ => .error s!"unknown function or arity: {fn}/{args.length}"

partial def loop (hin hout : IO.FS.Stream) : IO Unit := do
  let line ← hin.getLine
  if line.isEmpty then return ()
  let out : Json :=
    match Json.parse line with
    | .error e => Json.mkObj [("error", .str e)]
    | .ok j =>
      let ext := field j "ext"
      match (match field j "args" with | .arr xs => xs.toList.mapM decVal | _ => .error "args"), decOracle (field j "oracle"),
            decExt (field ext "getattr"), decExt (field ext "_parse_dt"), decExt (field ext "rel_branch") with
      | .ok args, .ok o, .ok ga, .ok pd, .ok rb =>
        (match evalCondFn o ga pd rb (fieldStr j "fn") args with
         | .ok r => encRes r
         | .error e => Json.mkObj [("error", .str e)])
      | .error e, _, _, _, _ => Json.mkObj [("error", .str e)]
      | _, .error e, _, _, _ => Json.mkObj [("error", .str e)]
      | _, _, .error e, _, _ => Json.mkObj [("error", .str e)]
      | _, _, _, .error e, _ => Json.mkObj [("error", .str e)]
      | _, _, _, _, .error e => Json.mkObj [("error", .str e)]
  hout.putStrLn out.compress
  loop hin hout

def main : IO Unit := do
  let hin ← IO.getStdin
  let hout ← IO.getStdout
  loop hin hout
  hout.flush
