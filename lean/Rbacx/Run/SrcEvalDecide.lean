import Rbacx.Generated
import Driver.Codec
/-!
  Per-run evaluator of the TRANSLATED DECISION DISPATCH AND CONSTRUCTOR of `Guard` (`Rbacx.Generated.Src.guard_decide_async`,
  `guard_init`): one JSON line in —
  `{"fn": name, "args": [values…], "ext": {parameter: OUTCOME | [[[arguments…], OUTCOME] …], …}, "flags": {parameter: bool, …}}`
  with OUTCOME = `{"ok": value} | {"raised": true}`, the arguments in the order the target's doc comment in Generated.lean lists its
  inputs — one JSON line out: `{"out": value} | {"raised": true}` plus `"trace": [["rd", attr] …]`.
  An external given as a TABLE is answered by the first row whose argument list equals (Python `==`) the arguments of the call (no
  row: raised) — so that the comparison sees WHICH read of `self.policy` / `self._compiled` feeds which call; an external given as one
  outcome is answered with it whatever the arguments.
  The harness (`translated_vs_python` in harness/props/c09.py) runs the SAME methods with CPython (pytolean_decide.as_python: the
  methods' own source compiled in the module's globals, `asyncio.to_thread` the real one, stub `decide_policy` / `decide_policyset` /
  compiled function / compiler that answer or raise, an object whose `policy` / `_compiled` yield a different value at every read and log
  the read) and compares value and trace: this validates the readings the obligation `C09_decide_translated` trusts.
  Run with `lake env lean --run Rbacx/Run/SrcEvalDecide.lean`.
-/
open Lean Codec Rbacx Rbacx.Generated

def decOutcome (j : Json) : Except String (Option PyVal) :=
  match j.getObjVal? "ok" with
  | .ok v => do let x ← decVal v; pure (some x)
  | .error _ => pure none

/-- rows (parameter, arguments it answers — `none`: any —, outcome) -/
def decExt (j : Json) : Except String (List (String × Option (List PyVal) × Option PyVal)) := do
  let entries : List (String × Json) := match j with | .obj kvs => kvs.toList | _ => []
  let rows ← entries.mapM fun (kv : String × Json) => do
    match kv.2 with
    | .arr table =>
      table.toList.mapM fun (row : Json) => do
        match row with
        | .arr #[.arr args, out] => do
          let xs ← args.toList.mapM decVal
          let o ← decOutcome out
          pure (kv.1, some xs, o)
        | _ => throw "ext table row"
    | single => do
      let o ← decOutcome single
      pure [(kv.1, (none : Option (List PyVal)), o)]
  pure rows.flatten

def answer (rows : List (String × Option (List PyVal) × Option PyVal)) (name : String) (args : List PyVal) : Option PyVal :=
  match rows.find? (fun r => r.1 == name && (match r.2.1 with | none => true | some xs => PyVal.pyEq (.list xs) (.list args))) with
  | some r => r.2.2
  | none => none

def decFlags (j : Json) : String → Bool :=
  let entries : List (String × Json) := match j with | .obj kvs => kvs.toList | _ => []
  fun name => match entries.find? (fun e => e.1 == name) with | some (_, .bool b) => b | _ => false

def encEff : PyP.Eff → Json
  | .acq l => .arr #[.str "acq", .str l]
  | .rel l => .arr #[.str "rel", .str l]
  | .rd a => .arr #[.str "rd", .str a]
  | .wr a v => .arr #[.str "wr", .str a, encVal v]
  | .call c args => .arr #[.str "call", .str c, .arr (args.map encVal).toArray]

partial def loop (hin hout : IO.FS.Stream) : IO Unit := do
  let line ← hin.getLine
  if line.isEmpty then return ()
  let out : Json :=
    match Json.parse line with
    | .error e => Json.mkObj [("error", .str e)]
    | .ok j =>
      match (match field j "args" with | .arr xs => xs.toList.mapM decVal | _ => .error "args"), decExt (field j "ext") with
      | .error e, _ => Json.mkObj [("error", .str e)]
      | _, .error e => Json.mkObj [("error", .str e)]
      | .ok args, .ok rows =>
        let fn := fieldStr j "fn"
        match Src.evalDecide (answer rows) (decFlags (field j "flags")) fn args with
        | some r =>
          let tr : Json := .arr (r.trace.map encEff).toArray
          match r.out with
          | some v => Json.mkObj [("out", encVal v), ("trace", tr)]
          | none => Json.mkObj [("raised", .bool true), ("trace", tr)]
        | none => Json.mkObj [("error", .str s!"unknown target or arity: {fn}/{args.length}")]
  hout.putStrLn out.compress
  loop hin hout

def main : IO Unit := do
  let hin ← IO.getStdin
  let hout ← IO.getStdout
  loop hin hout
  hout.flush
