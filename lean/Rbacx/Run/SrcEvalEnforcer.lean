import Rbacx.Generated
import Driver.Codec
/-!
  Per-run evaluator of the TRANSLATED REDACTION ENFORCER (`Rbacx.Generated.Src.set_by_path`, `Src.apply_obligations`; cursor
  translation, harness/pytolean_cursor.py): one JSON line in (`{"fn": name, "args": [values…]}` — `_set_by_path` takes
  `[obj, path, value]`, `apply_obligations` `[payload, obligations, in_place]`), one JSON line out: `{"value": v}` = the state the
  translation ends in (for `_set_by_path`: what the caller's `obj` looks like afterwards; for `apply_obligations`: the returned
  payload), or `{"raised": true}` when the translation says an exception escapes (`none`; also: a `while` budget ran out).
  The harness (`translated_vs_python` in harness/props/c19.py) runs the real functions on the same arguments and compares: this
  validates the translator and Model/PyCursor.lean — what the obligation `C19_translated` trusts.
  Kept apart from the other evaluators so that a change to enforcer.py cannot break their runs.
  Run with `lake env lean --run Rbacx/Run/SrcEvalEnforcer.lean`.
-/
open Lean Codec Rbacx Rbacx.Generated

def evalEnforcer (fn : String) (args : List PyVal) : Except String (Option PyVal) :=
  match fn, args with
  | "_set_by_path", [a, b, c] => .ok (Src.set_by_path a b c)
  | "apply_obligations", [a, b, c] => .ok (Src.apply_obligations a b c)
  | _, _ => .error s!"unknown function or arity: {fn}/{args.length}"

partial def loop (hin hout : IO.FS.Stream) : IO Unit := do
  let line ← hin.getLine
  if line.isEmpty then return ()
  let out : Json :=
    match Json.parse line with
    | .error e => Json.mkObj [("error", .str e)]
    | .ok j =>
      match (match field j "args" with | .arr xs => xs.toList.mapM decVal | _ => .error "args") with
      | .error e => Json.mkObj [("error", .str e)]
      | .ok args =>
        match evalEnforcer (fieldStr j "fn") args with
        | .ok (some v) => Json.mkObj [("value", encVal v)]
        | .ok none => Json.mkObj [("raised", .bool true)]
        | .error e => Json.mkObj [("error", .str e)]
  hout.putStrLn out.compress
  loop hin hout

def main : IO Unit := do
  let hin ← IO.getStdin
  let hout ← IO.getStdout
  loop hin hout
  hout.flush
