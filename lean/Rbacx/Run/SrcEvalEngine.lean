import Rbacx.Generated
import Driver.Codec
/-!
  Per-run evaluator of the TRANSLATED DECISION CORE OF THE ENGINE (`Rbacx.Generated.Src.engine_env`, `engine_gate`, …): one JSON line in —
  `{"fn": name, "args": [values…], "oracle": {"str": […], "fos": […]}, "ext": {parameter: {"ok": value} | {"raised": true}, …}}`,
  the arguments in the order the range's doc comment in Generated.lean lists them (records — the request dataclasses — as JSON
  objects of their fields) — one JSON line out: `{"value": v}` (a `Decision` as the object of its fields, in declaration order).
  `ext` gives, per external collaborator call of the range (named by its Lean parameter), the OUTCOME of the awaited call: the value it
  returned, or that it raised; the generated dispatcher `Src.evalEngineRange` answers the call with it whatever the arguments.
  The harness (`translated_vs_python` in harness/props/c01.py) builds the SAME statement ranges as a real `async def` from the source
  text (pytolean_async.range_as_python), runs them with CPython — stub collaborators that return that value or raise — and compares:
  this validates the readings the obligation `C01_translated` trusts (awaited calls as outcomes, try/except as a case split, the
  unpacking as part of the raising point, dataclasses as records) and Model/PyLib.lean.  Kept apart from the other evaluators so that a
  change to engine.py cannot break the other runs.  Run with `lake env lean --run Rbacx/Run/SrcEvalEngine.lean`.
-/
open Lean Codec Rbacx Rbacx.Generated

/-- the outcomes of the external calls: parameter name ↦ `some v` (returned) / `none` (raised; also for a name that is not listed) -/
def decOutcomes (j : Json) : Except String (String → Option PyVal) := do
  let entries : List (String × Json) := match j with | .obj kvs => kvs.toList | _ => []
  let rows : List (String × Option PyVal) ← entries.mapM fun (kv : String × Json) => do
    match kv.2.getObjVal? "ok" with
    | .ok v => do let x ← decVal v; pure (kv.1, some x)
    | .error _ => pure (kv.1, none)
  pure fun name => match rows.find? (fun e => e.1 == name) with | some e => e.2 | none => none

partial def loop (hin hout : IO.FS.Stream) : IO Unit := do
  let line ← hin.getLine
  if line.isEmpty then return ()
  let out : Json :=
    match Json.parse line with
    | .error e => Json.mkObj [("error", .str e)]
    | .ok j =>
      match (match field j "args" with | .arr xs => xs.toList.mapM decVal | _ => .error "args"), decOracle (field j "oracle"),
            decOutcomes (field j "ext") with
      | .error e, _, _ => Json.mkObj [("error", .str e)]
      | _, .error e, _ => Json.mkObj [("error", .str e)]
      | _, _, .error e => Json.mkObj [("error", .str e)]
      | .ok args, .ok o, .ok ext =>
        let fn := fieldStr j "fn"
        match Src.evalEngineRange o ext fn args with
        | some v => Json.mkObj [("value", encVal v)]
        | none => Json.mkObj [("error", .str s!"unknown range or arity: {fn}/{args.length}")]
  hout.putStrLn out.compress
  loop hin hout

def main : IO Unit := do
  let hin ← IO.getStdin
  let hout ← IO.getStdout
  loop hin hout
  hout.flush
