import Rbacx.Generated
import Driver.Codec
/-!
  Per-run evaluator of the REFERENCE EVALUATORS TRANSLATED WHOLE (`Rbacx.Generated.Src.evaluate`, `Src.decide_single`, `Src.decide`;
  exception-passing style, harness/pytolean_except.py, plugin extractors/src_translation_evaluators.py): one JSON line in —
  `{"fn": "evaluate" | "decide" | "_decide_single", "args": [document, env] (evaluate: [policy, env, algorithm]),
    "oracle": {"str": […], …}, "ext": {"getattr": [[[a, n, d], res], …], "_parse_dt": [[[x, strict], res], …],
    "rel_branch": [[[cond, env], res], …]}}`, `res` = `{"ok": value}` | `{"err": "mismatch"}` | `{"err": "raised:Cls"}` —
  one JSON line out, a `res` again: what the translation computes with the budget `size(document) + 1` (`_decide_single`:
  `size + 2`), the bounds the obligation `C02_whole` proves sufficient.
  `ext` carries the EXTERNAL functions of the translated `eval_condition` (not translated: parameters of `Src.evaluate` / `Src.decide`)
  as tables of what the REAL Python did on this very input, exactly as for `Run/SrcEvalCond.lean`; a miss shows up as the impossible
  exception `raised:ExtMiss`.
  The harness (`translated_whole_vs_python` in harness/props/c02.py) compares with the real `policy.evaluate` / `policyset.decide`:
  the returned dict (key order included for `evaluate`) or WHICH exception.  This validates the translator's whole-function reading
  (loops with several carried variables, `break` / `continue`, `try` around a test, the recursive dispatch) and Model/PyExcept.lean —
  what the obligation `C02_whole` trusts.
  Run with `lake env lean --run Rbacx/Run/SrcEvalEvaluators.lean`.
-/
open Lean Codec Rbacx Rbacx.Generated

def decRes (j : Json) : Except String (Except CondErr PyVal) :=
  match j.getObjVal? "ok" with
  | .ok v => do let x ← decVal v; pure (.ok x)
  | .error _ =>
    let e := fieldStr j "err"
    if e == "mismatch" then pure (.error .typeMismatch)
    else if e.startsWith "raised:" then pure (.error (.raised (e.drop 7).toString))
    else throw s!"bad result {j.compress}"

def encRes : Except CondErr PyVal → Json
  | .ok v => Json.mkObj [("ok", encVal v)]
  | .error .typeMismatch => Json.mkObj [("err", .str "mismatch")]
  | .error (.raised c) => Json.mkObj [("err", .str ("raised:" ++ c))]

/-- the table of one external function (`[[[arguments…], result], …]`) as a total function of the argument list -/
def decExt (j : Json) : Except String (List PyVal → Except CondErr PyVal) := do
  let entries : List Json := match j with | .arr a => a.toList | _ => []
  let rows : List (List PyVal × Except CondErr PyVal) ← entries.mapM fun (e : Json) =>
    match e with
    | .arr #[.arr args, r] => do let xs ← args.toList.mapM decVal; let y ← decRes r; pure (xs, y)
    | _ => throw "bad ext entry"
  pure fun args => match rows.find? (fun e => e.1 == args) with | some e => e.2 | none => .error (.raised "ExtMiss")

def evalFn (o : Oracle) (ga pd rb : List PyVal → Except CondErr PyVal) (fn : String) (args : List PyVal) :
    Except String (Except CondErr PyVal) :=
  let getattr := fun a b c => ga [a, b, c]
  let parse_dt := fun x s => pd [x, s]
  let rel_branch := fun c e => rb [c, e]
  match fn, args with
  | "evaluate", [p, env, alg] => .ok (Src.evaluate o getattr parse_dt rel_branch p env alg (p.size + 1))
  | "decide", [p, env] => .ok (Src.decide o getattr parse_dt rel_branch p env (p.size + 1))
  | "_decide_single", [p, env] => .ok (Src.decide_single o getattr parse_dt rel_branch p env (p.size + 2))
  | _, _ => .error s!"unknown function or arity: {fn}/{args.length}"

partial def loop (hin hout : IO.FS.Stream) : IO Unit := do
  let line ← hin.getLine
  if line.isEmpty then return ()
  let out : Json :=
    match Json.parse line with
    | .error e => Json.mkObj [("error", .str e)]
    | .ok j =>
      let ext := field j "ext"
      match (match field j "args" with | .arr xs => xs.toList.mapM decVal | _ => .error "args"), decOracle (field j "oracle"),
            decExt (field ext "getattr"), decExt (field ext "_parse_dt"), decExt (field ext "rel_branch") with
      | .ok args, .ok o, .ok ga, .ok pd, .ok rb =>
        (match evalFn o ga pd rb (fieldStr j "fn") args with
         | .ok r => encRes r
         | .error e => Json.mkObj [("error", .str e)])
      | .error e, _, _, _, _ => Json.mkObj [("error", .str e)]
      | _, .error e, _, _, _ => Json.mkObj [("error", .str e)]
      | _, _, .error e, _, _ => Json.mkObj [("error", .str e)]
      | _, _, _, .error e, _ => Json.mkObj [("error", .str e)]
      | _, _, _, _, .error e => Json.mkObj [("error", .str e)]
  hout.putStrLn out.compress
  loop hin hout

def main : IO Unit := do
  let hin ← IO.getStdin
  let hout ← IO.getStdout
  loop hin hout
  hout.flush
