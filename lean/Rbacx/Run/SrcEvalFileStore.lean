import Rbacx.Generated
import Driver.Codec
/-!
  Per-run evaluator of the TRANSLATED `atomic_write` / `FilePolicySource` methods (`Rbacx.Generated.Src.fs_*`, world-passing —
  Model/PyWorld.lean).  The world is instantiated with a LOG of the external calls made + a SCRIPT of their outcomes: the n-th external
  call (whichever it is) appends `(name, positional arguments, keyword arguments)` to the log and has the n-th outcome of the script.
  One JSON line in —
  `{"fn": "atomic_write" | "FilePolicySource.etag" | …, "self": {attr: v}, "fields": {attr: v}, "args": {param: v},
    "pure": {"os_path_dirname": [[argument, result], …]}, "script": [{"ok": v} | {"raised": "<class>"}, …]}`
  — one JSON line out:
  `{"calls": [{"name", "args": […], "kwargs": {…}}, …], "fields": {attr: v}, "out": {"ok": v} | {"raised": cls}}`.
  The generated dispatcher `Src.evalFileStore` follows the functions' current signatures.  The harness (`translated_vs_python` in
  harness/props/c16.py) drives the REAL functions with `os` / `tempfile` / `open` / `parse_policy_text` / `validate_policy` /
  `_hash_file` replaced by stubs that log and behave as the same script says, and compares calls (order, arguments), final cache
  attributes and returned value / raised class: this validates the readings the obligations `C16_translated` / `C16_atomic` trust
  (`finally` and `with` exit on every way out, an exception of a cleanup call replacing the one in flight, `except` by class name,
  the state attributes kept when an exception leaves the method) and Model/PyLib.lean.
  Run with `lake env lean --run Rbacx/Run/SrcEvalFileStore.lean`.
-/
open Lean Codec Rbacx Rbacx.Generated

structure LogW where
  calls : List (String × List PyVal × List (String × PyVal))
  script : List (Except String PyVal)

def logExt (name : String) : Rbacx.PyW.Ext LogW := fun args kwargs w =>
  match w.script with
  | o :: rest => (⟨w.calls ++ [(name, args, kwargs)], rest⟩, o)
  | [] => (⟨w.calls ++ [(name, args, kwargs)], []⟩, .error "ScriptExhausted")

def decScript (j : Json) : Except String (List (Except String PyVal)) := do
  let entries : List Json := match j with | .arr a => a.toList | _ => []
  entries.mapM fun (e : Json) => do
    match e.getObjVal? "ok" with
    | .ok v => do let x ← decVal v; pure (Except.ok x)
    | .error _ => pure (Except.error (fieldStr e "raised" "Exception"))

def decNamed (j : Json) : Except String (String → PyVal) := do
  let entries : List (String × Json) := match j with | .obj kvs => kvs.toList | _ => []
  let rows : List (String × PyVal) ← entries.mapM fun (kv : String × Json) => do let x ← decVal kv.2; pure (kv.1, x)
  pure fun name => match rows.find? (fun e => e.1 == name) with | some e => e.2 | none => PyVal.none

def decExtTable (j : Json) : Except String (PyVal → PyVal) := do
  let entries : List Json := match j with | .arr a => a.toList | _ => []
  let rows : List (PyVal × PyVal) ← entries.mapM fun (e : Json) =>
    match e with
    | .arr #[a, r] => do let x ← decVal a; let y ← decVal r; pure (x, y)
    | _ => throw "bad table entry"
  pure fun v => match rows.find? (fun e => e.1 == v) with | some e => e.2 | none => .str "\u0000<pure-miss>"

def decPure (j : Json) : Except String (String → PyVal → PyVal) := do
  let entries : List (String × Json) := match j with | .obj kvs => kvs.toList | _ => []
  let rows : List (String × (PyVal → PyVal)) ← entries.mapM fun (kv : String × Json) => do let t ← decExtTable kv.2; pure (kv.1, t)
  pure fun name => match rows.find? (fun e => e.1 == name) with | some e => e.2 | none => fun _ => .str "\u0000<pure-miss>"

def encCall (c : String × List PyVal × List (String × PyVal)) : Json :=
  Json.mkObj [("name", .str c.1), ("args", .arr (c.2.1.map encVal).toArray), ("kwargs", Json.mkObj (c.2.2.map fun kv => (kv.1, encVal kv.2)))]

def encOut : Except String PyVal → Json
  | .ok v => Json.mkObj [("ok", encVal v)]
  | .error cls => Json.mkObj [("raised", .str cls)]

def run (j : Json) : Except String Json := do
  let self ← decNamed (field j "self")
  let fields ← decNamed (field j "fields")
  let args ← decNamed (field j "args")
  let pure' ← decPure (field j "pure")
  let script ← decScript (field j "script")
  match Src.evalFileStore (fieldStr j "fn") logExt pure' self fields args (⟨[], script⟩ : LogW) with
  | none => throw s!"no translated function {fieldStr j "fn"}"
  | some (w, fs, out) =>
    pure (Json.mkObj [("calls", .arr (w.calls.map encCall).toArray), ("fields", Json.mkObj (fs.map fun kv => (kv.1, encVal kv.2))),
                      ("out", encOut out)])

partial def loop (hin hout : IO.FS.Stream) : IO Unit := do
  let line ← hin.getLine
  if line.isEmpty then return ()
  let out : Json :=
    match Json.parse line with
    | .error e => Json.mkObj [("error", .str e)]
    | .ok j => match run j with | .ok r => r | .error e => Json.mkObj [("error", .str e)]
  hout.putStrLn out.compress
  loop hin hout

def main : IO Unit := do
  let hin ← IO.getStdin
  let hout ← IO.getStdout
  loop hin hout
  hout.flush
