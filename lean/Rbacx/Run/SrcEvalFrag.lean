import Rbacx.Generated
import Driver.Codec
/-!
  Per-run evaluator of the TRANSLATED FRAGMENTS (`Rbacx.Generated.Src.evaluate_step`, `evaluate_final`, `decide_step`,
  `decide_final`): one JSON line in (`{"fn": name, "args": [values…]}`, the arguments in the order the fragment's doc comment in
  Generated.lean lists them), one JSON line out (the value the translation computes).  The harness (`translated_vs_python` in
  harness/props/c02.py) builds the SAME statement range as a Python function from the source text, runs it with CPython on the same
  arguments and compares: this validates the translator's fragment mode and Model/PyLib.lean — what the obligation `C02_translated`
  trusts.  The dispatcher `Src.evalFragment` is generated with the fragments, so this file follows their current signatures.
  Kept apart from SrcEval.lean so that a change to the loops of `evaluate`/`decide` cannot break the C03/C05/C17 runs.
  Run with `lake env lean --run Rbacx/Run/SrcEvalFrag.lean`.
-/
open Lean Codec Rbacx Rbacx.Generated

partial def loop (hin hout : IO.FS.Stream) : IO Unit := do
  let line ← hin.getLine
  if line.isEmpty then return ()
  let out : Json :=
    match Json.parse line with
    | .error e => Json.mkObj [("error", .str e)]
    | .ok j =>
      match (match field j "args" with | .arr xs => xs.toList.mapM decVal | _ => .error "args") with
      | .error e => Json.mkObj [("error", .str e)]
      | .ok args =>
        match Src.evalFragment (fieldStr j "fn") args with
        | some v => Json.mkObj [("value", encVal v)]
        | none => Json.mkObj [("error", .str s!"unknown fragment or arity: {fieldStr j "fn"}/{args.length}")]
  hout.putStrLn out.compress
  loop hin hout

def main : IO Unit := do
  let hin ← IO.getStdin
  let hout ← IO.getStdout
  loop hin hout
  hout.flush
