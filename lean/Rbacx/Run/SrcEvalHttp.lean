import Rbacx.Generated
import Driver.Codec
/-!
  Per-run evaluator of the TRANSLATED HTTP POLICY SOURCE (`Rbacx.Generated.Src.http_load` / `http_etag` / `http_init`).  One JSON line in =
  one source object and a SEQUENCE of calls on it (the fields are threaded from call to call):
  `{"url": v, "headers": v, "validate_schema": v, "st": {"etag": v, "policy_cache": v},
    "calls": [{"m": "load", "import": O, "get": [[[url, headers, timeout], RO], …], "detect": [[[filename, content_type], v], …],
               "parse": [[[text, filename, content_type], O], …], "validate": [[[doc], O], …]} | {"m": "etag"} | {"m": "init"}, …]}`
  with `O` = `{"ok": v}` | `{"err": class}`, `RO` = `{"ok": R}` | `{"err": class}`, `R` = `{"has": [names], "attr": {name: v}, "bytes": {name: O},
  "raise": O, "headers_is_dict": bool, "headers_get": {key: O}, "headers_get_default": O, "json": [O per call site]}`; values in the
  driver's codec.  The tables are what the REAL run's stubs were asked and answered: an argument list the real run did not see answers
  the exception `NoEntry` (so a translation that calls a collaborator with other arguments disagrees visibly).
  One JSON line out: `{"steps": [{"st": {…}, "out": O}, …]}`.
  Run with `lake env lean --run Rbacx/Run/SrcEvalHttp.lean`; compared with CPython by `harness/http_tr.py` (`translated_vs_python`).
-/
open Lean Codec Rbacx Rbacx.Generated Rbacx.PyH

def noEntry : PyH.Exc := { cls := "NoEntry" }

def decOutcome (j : Json) : Except PyH.Exc PyVal :=
  match j.getObjVal? "err" with
  | .ok (.str c) => .error { cls := c }
  | _ => match decVal (field j "ok") with
    | .ok v => .ok v
    | .error _ => .error { cls := "BadValue" }

def lookupRow (rows : List Json) (args : List PyVal) : Option Json :=
  rows.findSome? fun row =>
    match row with
    | .arr #[.arr as, o] =>
      match as.toList.mapM decVal with
      | .ok vs => if vs.length == args.length && (vs.zip args).all (fun p => p.1 == p.2) then some o else none
      | .error _ => none
    | _ => none

def decResp (j : Json) : Resp :=
  { has := fun k => (fieldArr j "has").any fun x => match x with | .str s => s == k | _ => false
    attr := fun k => (decVal (field (field j "attr") k)).toOption.getD .none
    bytesAttr := fun k => match (field j "bytes").getObjVal? k with | .ok o => some (decOutcome o) | .error _ => none
    raiseForStatus := decOutcome (field j "raise")
    headersIsDict := fieldBool j "headers_is_dict"
    headersGet := fun k => match (field j "headers_get").getObjVal? k with
      | .ok o => decOutcome o
      | .error _ => decOutcome (field j "headers_get_default")
    json := fun i => match (fieldArr j "json")[i - 1]? with | some o => if i = 0 then .error noEntry else decOutcome o | none => .error noEntry }

def decRespOutcome (j : Json) : Except PyH.Exc Resp :=
  match j.getObjVal? "err" with
  | .ok (.str c) => .error { cls := c }
  | _ => .ok (decResp (field j "ok"))

def encOutcome : Except PyH.Exc PyVal → Json
  | .ok v => Json.mkObj [("ok", encVal v)]
  | .error e => Json.mkObj [("err", .str e.cls)]

def encState (s : Src.http_State) : Json := Json.mkObj [("etag", encVal s.etag), ("policy_cache", encVal s.policy_cache)]

def step (url headers vs : PyVal) (st : Src.http_State) (c : Json) : Src.http_State × Except PyH.Exc PyVal :=
  match fieldStr c "m" with
  | "etag" => Src.http_etag url headers vs st
  | "init" => Src.http_init url headers vs st
  | _ =>
    let get := fun (u h t : PyVal) => match lookupRow (fieldArr c "get") [u, h, t] with | some o => decRespOutcome o | none => .error noEntry
    let parse := fun (t f ct : PyVal) => match lookupRow (fieldArr c "parse") [t, f, ct] with | some o => decOutcome o | none => .error noEntry
    let validate := fun (d : PyVal) => match lookupRow (fieldArr c "validate") [d] with | some o => decOutcome o | none => .error noEntry
    let detect := fun (f ct : PyVal) => match lookupRow (fieldArr c "detect") [f, ct] with
      | some o => (decVal o).toOption.getD (.str "NoEntry") | none => .str "NoEntry"
    Src.http_load url headers vs (decOutcome (field c "import")) get parse validate detect st

def evalLine (j : Json) : Except String Json := do
  let url ← decVal (field j "url")
  let headers ← decVal (field j "headers")
  let vs ← decVal (field j "validate_schema")
  let e ← decVal (field (field j "st") "etag")
  let pc ← decVal (field (field j "st") "policy_cache")
  let (_, steps) := (fieldArr j "calls").foldl (fun (acc : Src.http_State × List Json) c =>
      let r := step url headers vs acc.1 c
      (r.1, acc.2 ++ [Json.mkObj [("st", encState r.1), ("out", encOutcome r.2)]])) (({ etag := e, policy_cache := pc } : Src.http_State), [])
  .ok (Json.mkObj [("steps", Json.arr steps.toArray)])

partial def loop (hin hout : IO.FS.Stream) : IO Unit := do
  let line ← hin.getLine
  if line.isEmpty then return ()
  let out : Json :=
    match Json.parse line with
    | .error e => Json.mkObj [("error", .str e)]
    | .ok j => match evalLine j with
      | .ok r => r
      | .error e => Json.mkObj [("error", .str e)]
  hout.putStrLn out.compress
  loop hin hout

def main : IO Unit := do
  let hin ← IO.getStdin
  let hout ← IO.getStdout
  loop hin hout
  hout.flush
