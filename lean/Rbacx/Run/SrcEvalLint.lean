import Rbacx.Generated
import Rbacx.Model.Lint
import Driver.Codec
/-!
  Per-run evaluator of the TRANSLATED LINTER ANALYSIS (`Rbacx.Generated.Src.lint_analyze_policy`, `Src.lint_analyze_policyset`) AND of the
  model (`Rbacx.Lint.analyzePolicy` / `analyzePolicyset`): one JSON line in (`{"fn": "analyze_policy" | "analyze_policyset", "args":
  [document, require_attrs], "oracle": {"str": [[value, text], …]}}`), one JSON line out: `{"value": <translation>, "model": <model>}`.

  The helpers `_actions` / `_first_applicable_unreachable` / `_resource_covers` are instantiated with the hand-written models of
  Model/Lint.lean, the first pass with "adds nothing": the harness (`check_translated_lint` in harness/props/c17.py) compares the
  ALGORITHM-DEPENDENT issues (POTENTIALLY_UNREACHABLE / OVERLAPPED_BY_DENY, with ids, indices and policy_index) of the REAL
  `analyze_policy` / `analyze_policyset` with both.  This validates the translator (harness/pytolean_lint.py), Model/PyLint.lean and the
  helper models.  Run with `lake env lean --run Rbacx/Run/SrcEvalLint.lean`.
-/
open Lean Codec Rbacx Rbacx.Generated

def lintEnv (o : Oracle) : Lint.Env :=
  { o := o, dflt := "deny-overrides", acts := Lint.actions,
    cov := fun a b => .bool (Lint.resourceCovers o a b), unr := fun a b => .bool (Lint.firstApplicableUnreachable o a b),
    firstPass := fun _ _ => [] }

def evalLint (o : Oracle) (fn : String) (args : List PyVal) : Except String (PyVal × PyVal) :=
  let E := lintEnv o
  match fn, args with
  | "analyze_policy", [p, r] =>
    .ok (Src.lint_analyze_policy o E.acts E.unr E.cov (fun _ issues _ _ _ => issues) p r, .list (Lint.analyzePolicy E p r))
  | "analyze_policyset", [p, r] =>
    .ok (Src.lint_analyze_policyset o E.acts E.unr E.cov (fun _ issues _ _ _ => issues) p r, .list (Lint.analyzePolicyset E p r))
  | _, _ => .error s!"unknown function or arity: {fn}/{args.length}"

partial def loop (hin hout : IO.FS.Stream) : IO Unit := do
  let line ← hin.getLine
  if line.isEmpty then return ()
  let out : Json :=
    match Json.parse line with
    | .error e => Json.mkObj [("error", .str e)]
    | .ok j =>
      match (match field j "args" with | .arr xs => xs.toList.mapM decVal | _ => .error "args"), decOracle (field j "oracle") with
      | .error e, _ => Json.mkObj [("error", .str e)]
      | _, .error e => Json.mkObj [("error", .str e)]
      | .ok args, .ok o =>
        match evalLint o (fieldStr j "fn") args with
        | .ok (v, m) => Json.mkObj [("value", encVal v), ("model", encVal m)]
        | .error e => Json.mkObj [("error", .str e)]
  hout.putStrLn out.compress
  loop hin hout

def main : IO Unit := do
  let hin ← IO.getStdin
  let hout ← IO.getStdout
  loop hin hout
  hout.flush
