import Rbacx.Generated
import Driver.Codec
/-!
  Per-run evaluator of the TRANSLATED AUDIT LOGGER (`Rbacx.Generated.Src.logger_init`, `Src.should_drop`, `Src.logger_log`; logger
  translation, harness/pytolean_logger.py).  One JSON line in:

    {"fn": "init" | "should_drop" | "log",
     "init": {"sample_rate": F, "redactions": v, "redact_in_place": v, "use_default_redactions": v, "smart_sampling": v,
              "category_sampling_rates": null | [[k, F]…], "max_env_bytes": v},
     "draw": F, "payload": v,
     "apply": null | {"args": [v, v, v], "returned": v | absent, "raised": true | absent, "arg": v},   -- the REAL call's outcome
     "sizes": [[v, "n" | null]…],                                                                     -- the size oracle as a table
     "compose": bool}                    -- use the TRANSLATED enforcer `Src.apply_obligations` as the external instead of the table

  `F` = a float given by its exact order embedding (the model's `FNum`): `"nan"` or the decimal text of `x·2^1074` (±2^2100 for ±inf),
  computed by the harness with `float.as_integer_ratio()`.  One JSON line out: `init` → the attributes; `should_drop` → `{"value": b}`;
  `log` → `{"dropped": true}` or `{"emitted": record}`.  An external call with other arguments than the recorded ones, or a size that is
  not in the table, shows as the marker value `"<<unexpected external call>>"` / the size 10^30 in the result.
  The harness (`logger_translated_vs_python` in harness/props/c19.py) runs the REAL `DecisionLogger` on the same inputs and compares:
  this validates the translator and Model/PyLogger.lean — what the obligation `C19_logger_translated` trusts.
  Run with `lake env lean --run Rbacx/Run/SrcEvalLogger.lean`.
-/
open Lean Codec Rbacx Rbacx.Generated Rbacx.Redact

def decF (j : Json) : Except String FNum :=
  match j with
  | .str "nan" => pure .nan
  | .str s =>
    match s.toInt? with
    | some k => pure (.fin k)
    | none => throw s!"bad FNum {s}"
  | _ => throw "FNum expected"

def encF : FNum → Json
  | .nan => .str "nan"
  | .fin k => .str (toString k)

def decRates (j : Json) : Except String (Option Rbacx.PyL.RateMap) :=
  match j with
  | .null => pure none
  | .arr a => do
    let es ← a.toList.mapM fun e =>
      match e with
      | .arr #[.str c, f] => do let x ← decF f; pure (c, x)
      | _ => throw "bad rate entry"
    pure (some es)
  | _ => throw "bad rates"

def decSelf (j : Json) : Except String Src.LoggerSelf := do
  let rate ← decF (field j "sample_rate")
  let red ← fieldVal j "redactions"
  let ip ← fieldVal j "redact_in_place"
  let ud ← fieldVal j "use_default_redactions"
  let sm ← fieldVal j "smart_sampling"
  let rates ← decRates (field j "category_sampling_rates")
  let mb ← fieldVal j "max_env_bytes"
  pure (Src.logger_init rate red ip ud sm rates mb)

def encSelf (s : Src.LoggerSelf) : Json :=
  Json.mkObj [("sample_rate", encF s.sample_rate), ("redactions_provided", encVal s.redactions_provided), ("redactions", encVal s.redactions),
    ("redact_in_place", encVal s.redact_in_place), ("use_default_redactions", encVal s.use_default_redactions),
    ("smart_sampling", encVal s.smart_sampling),
    ("sample_strategy", .arr (s.sample_strategy.map fun (k, f) => Json.arr #[.str k, encF f]).toArray),
    ("max_env_bytes", encVal s.max_env_bytes)]

def unexpected : PyVal := .str "<<unexpected external call>>"

/-- the external as the table of the one recorded real call -/
def decApply (j : Json) : Except String (PyVal → PyVal → PyVal → Rbacx.PyL.CallOut) :=
  match j with
  | .null => pure fun _ _ _ => .returned unexpected unexpected
  | a => do
    let args ← (fieldArr a "args").mapM decVal
    let arg ← fieldVal a "arg"
    let out : Rbacx.PyL.CallOut ←
      if fieldBool a "raised" then pure (Rbacx.PyL.CallOut.raised arg)
      else do let v ← fieldVal a "returned"; pure (Rbacx.PyL.CallOut.returned v arg)
    pure fun x y z => if args == [x, y, z] then out else .returned unexpected unexpected

/-- the external as the TRANSLATED enforcer (`in_place`: the returned object is the argument object; otherwise the argument is untouched) -/
def composed (x y z : PyVal) : Rbacx.PyL.CallOut :=
  match Src.apply_obligations x y z with
  | some v => .returned v (if z.truthy then v else x)
  | none => .raised x

def decSizes (j : Json) : Except String (PyVal → Option Nat) := do
  let tbl ← (fieldArr j "sizes").mapM fun e =>
    match e with
    | .arr #[v, .null] => do let w ← decVal v; pure (w, (none : Option Nat))
    | .arr #[v, .str n] =>
      match n.toNat? with
      | some k => do let w ← decVal v; pure (w, some k)
      | none => throw "bad size"
    | _ => throw "bad sizes entry"
  pure fun v =>
    match tbl.find? (fun e => e.1 == v) with
    | some e => e.2
    | none => some (10 ^ 30)

def evalLine (j : Json) : Except String Json := do
  let self ← decSelf (field j "init")
  match fieldStr j "fn" with
  | "init" => pure (encSelf self)
  | "should_drop" => do
    let draw ← decF (field j "draw")
    let payload ← fieldVal j "payload"
    pure (Json.mkObj [("value", encVal (Src.should_drop self draw payload))])
  | "log" => do
    let draw ← decF (field j "draw")
    let payload ← fieldVal j "payload"
    let ext ← if fieldBool j "compose" then pure composed else decApply (field j "apply")
    let sizes ← decSizes j
    pure (match Src.logger_log self ext sizes draw payload with
      | none => Json.mkObj [("dropped", .bool true)]
      | some r => Json.mkObj [("emitted", encVal r)])
  | fn => throw s!"unknown fn {fn}"

partial def loop (hin hout : IO.FS.Stream) : IO Unit := do
  let line ← hin.getLine
  if line.isEmpty then return ()
  let out : Json :=
    match Json.parse line with
    | .error e => Json.mkObj [("error", .str e)]
    | .ok j =>
      match evalLine j with
      | .ok r => r
      | .error e => Json.mkObj [("error", .str e)]
  hout.putStrLn out.compress
  loop hin hout

def main : IO Unit := do
  let hin ← IO.getStdin
  let hout ← IO.getStdout
  loop hin hout
  hout.flush
