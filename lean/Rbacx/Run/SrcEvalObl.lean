import Rbacx.Generated
import Rbacx.Model.Obligations
import Driver.Codec
/-!
  Per-run evaluator of the TRANSLATED OBLIGATION CHECKER (`Rbacx.Generated.Src.check_prologue`, `check_step`, `check_final`): one JSON
  line in —
  `{"fn": name, "args": [values…], "oracle": {"str": […], "fos": […]}, "ext": {"_finite_number": [[argument, result], …]}}`,
  the arguments in the order the fragment's doc comment in Generated.lean lists them — one JSON line out: `{"ret": v}` when the
  fragment executed `return v`, `{"next": [v1, …]}` when it was left normally (`check_final`, a plain value, is reported as `ret`).
  `ext` is the table of the EXTERNAL function `_finite_number` (not translated: a parameter of `check_step`): CPython's results on
  every value the call can be applied to, computed by the harness with the real function; a miss shows up as an impossible value.
  The oracle table carries CPython's `str()` of floats/containers (`proto.build_oracle`), as for the model driver.
  `fn = "finiteNumber"` evaluates the MODEL's `Rbacx.finiteNumber o x` (as a float or `None`) so that the harness can compare it with
  the real `_finite_number` directly: that comparison is the tie for the external function.
  The harness (`translated_vs_python` in harness/props/c07.py) builds the SAME statement ranges as Python functions from the source
  text, runs them with CPython on the same arguments and compares: this validates the translator's flow fragments and
  Model/PyLib.lean — what the obligation `C07_translated` trusts.  The dispatcher `Src.evalOblFragment` is generated with the
  fragments.  Kept apart from the other evaluators so that a change to obligations.py cannot break the C02/C03/C05/C17 runs.
  Run with `lake env lean --run Rbacx/Run/SrcEvalObl.lean`.
-/
open Lean Codec Rbacx Rbacx.Generated

/-- the table of one external function (`[[argument, result], …]`) as a total function -/
def decExtTable (j : Json) : Except String (PyVal → PyVal) := do
  let entries : List Json := match j with | .arr a => a.toList | _ => []
  let rows : List (PyVal × PyVal) ← entries.mapM fun (e : Json) =>
    match e with
    | .arr #[a, r] => do let x ← decVal a; let y ← decVal r; pure (x, y)
    | _ => throw "bad ext entry"
  pure fun v => match rows.find? (fun e => e.1 == v) with | some e => e.2 | none => .str "\u0000<ext-miss>"

def encFlow : Rbacx.Py.Flow → Json
  | .ret v => Json.mkObj [("ret", encVal v)]
  | .next vs => Json.mkObj [("next", .arr (vs.map encVal).toArray)]

partial def loop (hin hout : IO.FS.Stream) : IO Unit := do
  let line ← hin.getLine
  if line.isEmpty then return ()
  let out : Json :=
    match Json.parse line with
    | .error e => Json.mkObj [("error", .str e)]
    | .ok j =>
      match (match field j "args" with | .arr xs => xs.toList.mapM decVal | _ => .error "args"), decOracle (field j "oracle"),
            decExtTable (field (field j "ext") "_finite_number") with
      | .error e, _, _ => Json.mkObj [("error", .str e)]
      | _, .error e, _ => Json.mkObj [("error", .str e)]
      | _, _, .error e => Json.mkObj [("error", .str e)]
      | .ok args, .ok o, .ok fin =>
        let fn := fieldStr j "fn"
        if fn == "finiteNumber" then
          match args with
          | [x] => Json.mkObj [("ret", encVal (match finiteNumber o x with | some f => PyVal.float f | none => PyVal.none))]
          | _ => Json.mkObj [("error", .str "finiteNumber takes one argument")]
        else
          match Src.evalOblFragment o (fun name => if name == "_finite_number" then fin else fun _ => .str "\u0000<ext-unknown>") fn args with
          | some fl => encFlow fl
          | none => Json.mkObj [("error", .str s!"unknown fragment or arity: {fn}/{args.length}")]
  hout.putStrLn out.compress
  loop hin hout

def main : IO Unit := do
  let hin ← IO.getStdin
  let hout ← IO.getStdout
  loop hin hout
  hout.flush
