import Rbacx.Generated
import Rbacx.Proofs.RebacTranslated
import Driver.CmdC12
/-!
  Per-run evaluator of the TRANSLATED LOCAL ReBAC CHECKER (`Rbacx.Generated.Src.rebac_*`): one JSON line in, one JSON line out.

  in : {"tuples": [[subject, relation, resource, caveat|null], …]     -- loaded by the translated `add`, in order
        "rules": [[objType, [[relation, EXPR], …]], …]                  -- EXPR as in Driver/CmdC12.lean
        "outcomes": [[name, "raises" | true | false], …]                -- what `bool(pred(context))` of the REAL predicate did (external)
        "max_depth": "int", "max_nodes": "int", "deadline_ms": "int",
        "clock": {"step": "ns"} | {"script": ["ns", …]}                -- reading i = (i+1)·step | script[i] (last repeated)
        "queries": [[s, r, o], …], "batch": [[s, r, o], …] | null}
  out: {"answers": [{"check": b | null, "fuel": n, "direct": b, "split": [type, id], "lookup_none": b, "expand": [[s, r, o], …],
                     "dfr": [[s, r, o, c], …], "by_subject": [[s, r, o, c], …], "holds": [b, …]}, …],
        "batch": [b, …] | null}
  `check: null` = the budget `fuel = Rebac.fuelBound` (the bound of `Translated.check_terminates`) did not suffice — the theorem says it
  cannot.  `holds` = `_caveat_holds` on each tuple of `dfr`; `expand` = `_expand(_lookup_expr(type(o), r), s, o)`.
  The harness (`translated_vs_python` in harness/props/c12.py) runs the REAL store / checker on the same arguments and compares: this
  validates the translator (harness/pytolean_rebac.py) and Model/PyRebac.lean — what the obligation `C12_translated` trusts.
  Run with `lake env lean --run Rbacx/Run/SrcEvalRebac.lean`.
-/
open Lean Codec Rbacx Rbacx.Generated Rbacx.Rebac

def jTuple (t : Src.rebac_RelTuple) : Json :=
  .arr #[.str t.subject, .str t.relation, .str t.resource, match t.caveat with | some c => .str c | none => .null]

def jTriple (t : String × String × String) : Json := .arr #[.str t.1, .str t.2.1, .str t.2.2]

def decOutcomes (js : List Json) : Except String (List (String × PyR.CallOut)) :=
  js.mapM fun j =>
    match j with
    | .arr #[.str n, .str "raises"] => pure (n, PyR.CallOut.raises)
    | .arr #[.str n, .bool b] => pure (n, PyR.CallOut.returns b)
    | _ => throw s!"bad outcome {j.compress}"

def decClock (j : Json) : Except String (Nat → Int) :=
  match (j.getObjVal? "step").toOption, (j.getObjVal? "script").toOption with
  | some st, _ =>
    match CmdC12.jInt st with
    | some s => pure fun i => ((i : Int) + 1) * s
    | none => throw "bad clock.step"
  | _, some (.arr cs) =>
    let xs := cs.toList.filterMap CmdC12.jInt
    let last := xs.getLast?.getD 0
    pure fun i => xs.getD i last
  | _, _ => throw s!"bad clock {j.compress}"

def evalLine (j : Json) : Except String Json := do
  let tuples ← CmdC12.decTuples (fieldArr j "tuples")
  let rules ← CmdC12.decRules (fieldArr j "rules")
  let outs ← decOutcomes (fieldArr j "outcomes")
  let some maxDepth := CmdC12.jInt (field j "max_depth") | throw "bad max_depth"
  let some maxNodes := CmdC12.jInt (field j "max_nodes") | throw "bad max_nodes"
  let some dms := CmdC12.jInt (field j "deadline_ms") | throw "bad deadline_ms"
  let clock ← decClock (field j "clock")
  let queries ← CmdC12.decTriples (fieldArr j "queries")
  let reg : PyR.Registry := fun c => outs.lookup c
  let store := tuples.foldl (fun s t => Src.rebac_Store_add s t.subject t.relation t.resource t.caveat) Src.rebac_Store_init
  let self := Src.rebac_Checker_init store (some (encRules rules)) (some reg) maxDepth maxNodes dms
  let fuel := fuelBound { tuples, rules, reg := fun _ => none, maxDepth, maxNodes }
  let answers := queries.map fun (s, r, o) =>
    let dfr := Src.rebac_Store_direct_for_resource store r o
    let sp := Src.rebac_split_ref o
    let ex := Src.rebac_Checker_lookup_expr self sp.1 r
    Json.mkObj [
      ("check", match Src.rebac_Checker_check self clock s r o fuel with | some b => .bool b | none => .null),
      ("fuel", toJson fuel),
      ("direct", .bool (Src.rebac_Checker_direct_allowed self s r o)),
      ("split", .arr #[.str sp.1, .str sp.2]),
      ("lookup_none", .bool (PyR.isNone ex)),
      ("expand", .arr ((Src.rebac_Checker_expand self ex s o).map jTriple).toArray),
      ("dfr", .arr (dfr.map jTuple).toArray),
      ("by_subject", .arr ((Src.rebac_Store_by_subject store s r).map jTuple).toArray),
      ("holds", .arr (dfr.map fun t => Json.bool (Src.rebac_Checker_caveat_holds self t)).toArray)]
  let batch : Json ←
    match field j "batch" with
    | .arr bs => do
      let ts ← CmdC12.decTriples bs.toList
      let res := Src.rebac_Checker_batch_check self
        (fun _ s r o => (Src.rebac_Checker_check self clock s r o fuel).getD false) ts
      pure (.arr (res.map Json.bool).toArray)
    | _ => pure .null
  pure (Json.mkObj [("answers", .arr answers.toArray), ("batch", batch)])

partial def loop (hin hout : IO.FS.Stream) : IO Unit := do
  let line ← hin.getLine
  if line.isEmpty then return ()
  let out : Json :=
    match Json.parse line with
    | .error e => Json.mkObj [("error", .str e)]
    | .ok j =>
      match evalLine j with
      | .error e => Json.mkObj [("error", .str e)]
      | .ok v => v
  hout.putStrLn out.compress
  loop hin hout

def main : IO Unit := do
  let hin ← IO.getStdin
  let hout ← IO.getStdout
  loop hin hout
  hout.flush
