import Rbacx.Generated
import Driver.Codec
/-!
  Per-run evaluator of the translations of harness/pytolean_rel.py (`Rbacx.Generated.Src.parse_dt`, `canon_subject`, `canon_resource`,
  `rel_range`): one JSON line in —
  `{"fn": "_parse_dt" | "_canon_subject" | "_canon_resource" | "rel_range", "args": [values…], "oracle": {…},
    "ext": {name: [[[arguments…], res], …]}, "checker": null | [[[subject, relation, resource, ctx], res], …], "eval_loop": bool,
    "memo": null | [[key, value], …]}`, `res` = `{"ok": value}` | `{"err": "mismatch"}` | `{"err": "raised:Cls"}` —
  one JSON line out: a `res` for the three functions; for `rel_range` `{"res": res, "memo": null | [[key, value], …], "calls": [[arguments…], …]}`
  = what the range returned / raised, the content of the memo object afterwards, the checker calls made, in order.
  `ext` carries the EXTERNALS (not translated: parameters of the translation) as tables of what the REAL Python did on this very input
  (`fromtimestamp` / `fromisoformat` = the two `datetime` expressions of `_parse_dt`; `getattr`, `_ctx_hash`, `resolve_awaitable_in_worker`);
  `checker` is the table of the outcomes of the real checker's `check` (`{"err": …}` = it raised).  A miss is the impossible `raised:ExtMiss`.
  The harness (`translated_vs_python` in harness/props/c13.py, `parse_dt_vs_python` in c04.py) compares with the real code: this validates
  harness/pytolean_rel.py and Model/PyRel.lean — what the obligations `C04_parse_dt_translated` / `C13_translated` trust.
  Run with `lake env lean --run Rbacx/Run/SrcEvalRel.lean`.
-/
open Lean Codec Rbacx Rbacx.Generated

def decRes (j : Json) : Except String (Except CondErr PyVal) :=
  match j.getObjVal? "ok" with
  | .ok v => do let x ← decVal v; pure (.ok x)
  | .error _ =>
    let e := fieldStr j "err"
    if e == "mismatch" then pure (.error .typeMismatch)
    else if e.startsWith "raised:" then pure (.error (.raised (e.drop 7).toString))
    else throw s!"bad result {j.compress}"

def encRes : Except CondErr PyVal → Json
  | .ok v => Json.mkObj [("ok", encVal v)]
  | .error .typeMismatch => Json.mkObj [("err", .str "mismatch")]
  | .error (.raised c) => Json.mkObj [("err", .str ("raised:" ++ c))]

def decRows (j : Json) : Except String (List (List PyVal × Except CondErr PyVal)) := do
  let entries : List Json := match j with | .arr a => a.toList | _ => []
  entries.mapM fun (e : Json) =>
    match e with
    | .arr #[.arr args, r] => do let xs ← args.toList.mapM decVal; let y ← decRes r; pure (xs, y)
    | _ => throw "bad table entry"

/-- the table of one external function as a total function of the argument list -/
def decExt (j : Json) : Except String (List PyVal → Except CondErr PyVal) := do
  let rows ← decRows j
  pure fun args => match rows.find? (fun e => e.1 == args) with | some e => e.2 | none => .error (.raised "ExtMiss")

def decMemo (j : Json) : Except String (Option (List (PyVal × PyVal))) :=
  match j with
  | .arr a => do
    let items ← a.toList.mapM fun (e : Json) =>
      match e with
      | .arr #[k, v] => do let k' ← decVal k; let v' ← decVal v; pure (k', v')
      | _ => throw "bad memo entry"
    pure (some items)
  | _ => pure none

def encMemo : Option (List (PyVal × PyVal)) → Json
  | none => Json.null
  | some m => Json.arr (m.map fun kv => Json.arr #[encVal kv.1, encVal kv.2]).toArray

def decChecker (j : Json) : Except String Rbacx.PyR.Checker :=
  match j with
  | .null => pure none
  | t => do
    let rows ← decRows t
    pure (some fun a => match rows.find? (fun e => e.1 == a) with
      | some (_, .ok v) => some v
      | some (_, .error _) => none
      | none => some (.str "<checker table miss>"))

/-- all external tables of one line as ONE function of (name, arguments): the translation is applied by name (`Src.*_run`, rendered by
    the plugin from the externals the current source still uses), so a source change that drops or adds an external does not break this file -/
def decExts (ext : Json) : Except String (String → List PyVal → Except CondErr PyVal) := do
  let names := ["getattr", "fromtimestamp", "fromisoformat", "_ctx_hash", "resolve_awaitable_in_worker"]
  let tables ← names.mapM fun n => do let t ← decExt (field ext n); pure (n, t)
  pure fun n args => match tables.find? (fun e => e.1 == n) with | some e => e.2 args | none => .error (.raised "ExtMiss")

def evalLine (j : Json) : Except String Json := do
  let args ← (match field j "args" with | .arr xs => xs.toList.mapM decVal | _ => throw "args")
  let o ← decOracle (field j "oracle")
  let ext ← decExts (field j "ext")
  let arity : Except String Json := throw s!"{fieldStr j "fn"}: not translated, or called with {args.length} arguments"
  match fieldStr j "fn" with
  | "_parse_dt" => (match Src.parse_dt_run o ext args with | some r => pure (encRes r) | none => arity)
  | "_canon_subject" => (match Src.canon_subject_run o ext args with | some r => pure (encRes r) | none => arity)
  | "_canon_resource" => (match Src.canon_resource_run o ext args with | some r => pure (encRes r) | none => arity)
  | "rel_range" => do
    let checker ← decChecker (field j "checker")
    let loop := Rbacx.PyR.handle ((field j "eval_loop").getBool?.toOption.getD false)
    let memo ← decMemo (field j "memo")
    match Src.rel_range_run o ext checker loop args with
    | none => arity
    | some m =>
      let (r, st) := m { memo := memo, calls := [] }
      pure (Json.mkObj [("res", encRes r), ("memo", encMemo st.memo),
        ("calls", Json.arr (st.calls.map fun c => Json.arr (c.map encVal).toArray).toArray)])
  | fn => throw s!"unknown function: {fn}"

partial def loop (hin hout : IO.FS.Stream) : IO Unit := do
  let line ← hin.getLine
  if line.isEmpty then return ()
  let out : Json :=
    match Json.parse line with
    | .error e => Json.mkObj [("error", .str e)]
    | .ok j => match evalLine j with | .ok r => r | .error e => Json.mkObj [("error", .str e)]
  hout.putStrLn out.compress
  loop hin hout

def main : IO Unit := do
  let hin ← IO.getStdin
  let hout ← IO.getStdout
  loop hin hout
  hout.flush
