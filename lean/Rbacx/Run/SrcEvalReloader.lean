import Rbacx.Generated
import Driver.Codec
/-!
  Per-run evaluator of the TRANSLATED RELOADER METHODS (`Rbacx.Generated.Src.reloader_check`, `Src.reloader_register_error`) over exact
  rationals (`Rbacx.PyR.qNum`).  One JSON line in:
  `{"m": "check" | "register_error" | "init", "cfg": [backoff_min, backoff_max, jitter_ratio], "now": q, "u": q, "st": {"last_etag": value,
    "suppress_until": q, "backoff": q, "last_reload_at": q | null, "last_error": class | null},
    check: "force": bool, "etag": {"ok": value} | {"raised": class}, "load": {"ok": value} | {"raised": class},
           "set_policy": {"ok": null} | {"raised": class};   register_error: "err": class;
    init: "initial_load": bool, "sync_etag": bool (the probe), "etag": outcome}` — `q` = `[numerator, denominator]`;
  one JSON line out: `{"st": {…}, "calls": [[callee, [argument values…]], …], "out": ["ret", value] | ["raised", class]}`.
  The harness (`translated_vs_python` in harness/props/c10.py) drives the REAL `HotReloader` with a scripted source / guard that behave as
  the outcome parameters say and with an injected clock / PRNG, and compares fields, calls and result: this validates the translator
  (harness/pytolean_state.py) and Model/PyReloader.lean — what the obligation `C10_translated` trusts.
  Run with `lake env lean --run Rbacx/Run/SrcEvalReloader.lean`.
-/
open Lean Codec Rbacx Rbacx.Generated Rbacx.PyR

def decQ (j : Json) : Except String Q :=
  match j with
  | .arr #[a, b] =>
    match a.getInt?, b.getNat? with
    | .ok n, .ok d => if d = 0 then .error "zero denominator" else .ok (Q.norm n d)
    | _, _ => .error "rational"
  | _ => .error "rational shape"

def encQ (q : Q) : Json := Json.arr #[Json.num (JsonNumber.fromInt q.num), Json.num (JsonNumber.fromNat q.den)]

def decOutcome {α : Type} (dec : Json → Except String α) (j : Json) : Except String (Except String α) :=
  match j.getObjVal? "raised" with
  | .ok (.str c) => .ok (.error c)
  | _ => do
    let v ← dec (field j "ok")
    .ok (.ok v)

def decState (j : Json) : Except String (Src.reloader_State Q) := do
  let le ← decVal (field j "last_etag")
  let su ← decQ (field j "suppress_until")
  let b ← decQ (field j "backoff")
  let lra ← (match field j "last_reload_at" with | .null => .ok none | x => (decQ x).map some)
  let err := (match field j "last_error" with | .str c => some c | _ => none)
  .ok { last_etag := le, suppress_until := su, backoff := b, last_reload_at := lra, last_error := err }

def encState (s : Src.reloader_State Q) : Json :=
  Json.mkObj [("last_etag", encVal s.last_etag), ("suppress_until", encQ s.suppress_until), ("backoff", encQ s.backoff),
    ("last_reload_at", match s.last_reload_at with | some q => encQ q | none => .null),
    ("last_error", match s.last_error with | some c => .str c | none => .null)]

def encRes (r : Res (Src.reloader_State Q) PyVal) : Json :=
  let calls := r.calls.map fun c =>
    Json.arr #[.str c.callee, Json.arr (c.args.map fun a => match a with | .opaque p => encVal p | .val v => encVal v).toArray]
  let out := match r.out with
    | .returned v => Json.arr #[.str "ret", encVal v]
    | .raised c => Json.arr #[.str "raised", .str c]
  Json.mkObj [("st", encState r.st), ("calls", Json.arr calls.toArray), ("out", out)]

def evalLine (j : Json) : Except String Json := do
  let cfg ← (fieldArr j "cfg").mapM decQ
  let now ← decQ (field j "now")
  let u ← decQ (field j "u")
  let st ← decState (field j "st")
  match cfg with
  | [bmin, bmax, ratio] =>
    match fieldStr j "m" with
    | "check" =>
      let e ← decOutcome decVal (field j "etag")
      let l ← decOutcome decVal (field j "load")
      let sp ← decOutcome (fun _ => .ok ()) (field j "set_policy")
      .ok (encRes (Src.reloader_check qNum bmin bmax ratio now u e l sp st [] (fieldBool j "force")))
    | "register_error" =>
      .ok (encRes (Src.reloader_register_error (P := PyVal) qNum bmin bmax ratio u st [] now (fieldStr j "err") (fieldStr j "level") (fieldStr j "msg")))
    | "init" =>
      let e ← decOutcome decVal (field j "etag")
      .ok (encRes (Src.reloader_init (P := PyVal) qNum bmin (fieldBool j "initial_load") (fieldBool j "sync_etag") e st []))
    | m => .error s!"unknown method {m}"
  | _ => .error "cfg: three rationals expected"

partial def loop (hin hout : IO.FS.Stream) : IO Unit := do
  let line ← hin.getLine
  if line.isEmpty then return ()
  let out : Json :=
    match Json.parse line with
    | .error e => Json.mkObj [("error", .str e)]
    | .ok j => match evalLine j with
      | .ok r => r
      | .error e => Json.mkObj [("error", .str e)]
  hout.putStrLn out.compress
  loop hin hout

def main : IO Unit := do
  let hin ← IO.getStdin
  let hout ← IO.getStdout
  loop hin hout
  hout.flush
