import Rbacx.Generated
import Rbacx.Proofs.RolesTranslated
import Driver.Codec
/-!
  Per-run evaluator of the TRANSLATED ROLE RESOLVER (`Rbacx.Generated.Src.roles_init_graph`, `Src.roles_expand`): one JSON line in
  (`{"graph": value, "items": [roles…]}` — one resolver `StaticRoleResolver(graph)` and the arguments of its `expand` calls), one JSON
  line out: `{"values": […]}`, per call `{"value": v, "fuel": n}` = what the translation computes with the budget
  `n = fuelBoundV (roles_init_graph graph) roles` (the bound of `Translated.roles_expand_terminates`, computed here from the Python
  values: `Translated.fuel_of_values`), or `{"fuel_exhausted": n}` when that budget did not suffice (the theorem says it cannot for
  string-valued inputs).
  The harness (`translated_vs_python` in harness/props/c18.py) runs the real resolver on the same arguments and compares: this
  validates the translator (harness/pytolean_loops.py) and Model/PyLib.lean — what the obligation `C18_translated` trusts.
  Kept apart from the other evaluators so that a change to roles.py cannot break the C02/C03/C05/C17 runs.
  Run with `lake env lean --run Rbacx/Run/SrcEvalRoles.lean`.
-/
open Lean Codec Rbacx Rbacx.Generated

partial def loop (hin hout : IO.FS.Stream) : IO Unit := do
  let line ← hin.getLine
  if line.isEmpty then return ()
  let out : Json :=
    match Json.parse line with
    | .error e => Json.mkObj [("error", .str e)]
    | .ok j =>
      match decVal (field j "graph"), (match field j "items" with | .arr xs => xs.toList.mapM decVal | _ => .error "items") with
      | .error e, _ => Json.mkObj [("error", .str e)]
      | _, .error e => Json.mkObj [("error", .str e)]
      | .ok graph, .ok items =>
        let stored := Src.roles_init_graph graph
        Json.mkObj [("values", Json.arr (items.map fun roles =>
          let fuel := Rbacx.Roles.fuelBoundV stored roles
          match Src.roles_expand stored roles fuel with
          | some v => Json.mkObj [("value", encVal v), ("fuel", toJson fuel)]
          | none => Json.mkObj [("fuel_exhausted", toJson fuel)]).toArray)]
  hout.putStrLn out.compress
  loop hin hout

def main : IO Unit := do
  let hin ← IO.getStdin
  let hout ← IO.getStdout
  loop hin hout
  hout.flush
