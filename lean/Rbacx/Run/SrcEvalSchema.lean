import Rbacx.Generated
import Driver.Codec
/-!
  Per-run evaluator of the TRANSLATED BUNDLED SCHEMA (`Rbacx.Generated.Src.schema_root`): one JSON line in (`{"doc": value}`, the value in
  the codec of Driver/Codec.lean), one JSON line out: `{"valid": b, "fuel": n}` with `b = Src.schema_root n doc` and the budget
  `n = 2 * size doc + 16` (every `$ref` costs one unit; a chain of references reaches a new level of the value after at most two steps —
  `XExpr → AttrRef` — so this is more than any path needs).
  The harness (`translated_schema_vs_jsonschema` in harness/props/c06.py) asks the real `jsonschema` validator built from the same file and
  `rbacx.dsl.validate.validate_policy` about the same documents and compares: this validates the translator (harness/pytolean_schema.py) and
  the keyword meanings (Model/JsonSchema.lean) — what the obligation `C06_schema` trusts.
  Kept apart from the other evaluators so that a change to the schema file cannot break other runs.
  Run with `lake env lean --run Rbacx/Run/SrcEvalSchema.lean`.
-/
open Lean Codec Rbacx Rbacx.Generated

partial def loop (hin hout : IO.FS.Stream) : IO Unit := do
  let line ← hin.getLine
  if line.isEmpty then return ()
  let out : Json :=
    match Json.parse line with
    | .error e => Json.mkObj [("error", .str e)]
    | .ok j =>
      match decVal (field j "doc") with
      | .error e => Json.mkObj [("error", .str e)]
      | .ok doc =>
        let fuel := 2 * doc.size + 16
        Json.mkObj [("valid", .bool (Src.schema_root fuel doc)), ("fuel", toJson fuel)]
  hout.putStrLn out.compress
  loop hin hout

def main : IO Unit := do
  let hin ← IO.getStdin
  let hout ← IO.getStdout
  loop hin hout
  hout.flush
