import Rbacx.Generated
import Driver.Codec
/-!
  Per-run evaluator of the TRANSLATED SINK BLOCK OF THE ENGINE (`Rbacx.Generated.Src.engine_sinks`, a sink-call trace —
  Model/PySinks.lean): one JSON line in —
  `{"sinks": {parameter: null | {"spelling": "plain" | "coroFn" | "awaitable", "raises": bool}, …}, "opaque": {parameter: value, …}, "args": {input variable: value, …}}`
  (`sinks`: per sink parameter — `metrics_inc`, `metrics_observe`, `logger_sink_log` — what the attribute look-up finds: nothing, or a
  function in one of the three spellings (`def`, `async def`, `def` returning an awaitable) whose work returns or raises; `opaque`: the opaque values (the measured duration); `args`: the input
  variables by their python names, `self.metrics` / `self.logger_sink` = `null` or any other value for "configured"; a `Decision` is
  the JSON object of its fields) — one JSON line out:
  `{"calls": [{"callee", "args": […]} …]` (the sink calls whose WORK RAN), "ending": "next" | "raised" | {"returned": value}}`.
  The generated dispatcher `Src.evalSinks` follows the block's current signature.  The harness (`translated_vs_python` in
  harness/props/c11.py) compiles the SAME statements as a real `async def` from the source text (pytolean_sinks.block_as_python), runs
  them with CPython against recording sink objects — `def`, `async def`, `def` returning a coroutine / an awaitable object, raising, missing attribute, `metrics=None`, `logger_sink=None`
  — and compares the call lists and the returned value: this validates the readings the obligation `C11_sinks_translated` trusts (sinks
  as parameters, `try/except Exception` as `tryExcept`, the awaited / plain call of a coroutine / plain function) and Model/PyLib.lean.
  Kept apart from the other evaluators so that a change to the sink block cannot break the other runs.
  Run with `lake env lean --run Rbacx/Run/SrcEvalSinks.lean`.
-/
open Lean Codec Rbacx Rbacx.Generated

def decSinks (j : Json) : String → Rbacx.PyS.Sink :=
  let entries : List (String × Json) := match j with | .obj kvs => kvs.toList | _ => []
  fun name =>
    match entries.find? (fun e => e.1 == name) with
    | some (_, .obj kvs) =>
      let b (k : String) : Bool := match (Json.obj kvs).getObjVal? k with | .ok (.bool true) => true | _ => false
      let sp : Rbacx.PyS.Spelling := match (Json.obj kvs).getObjVal? "spelling" with
        | .ok (.str "coroFn") => .coroFn
        | .ok (.str "awaitable") => .awaitable
        | _ => .plain
      .fn sp (b "raises")
    | _ => .absent

/-- a JSON object of values as a lookup by name (`None` for a name that is not listed) -/
def decNamed (j : Json) : Except String (String → PyVal) := do
  let entries : List (String × Json) := match j with | .obj kvs => kvs.toList | _ => []
  let rows : List (String × PyVal) ← entries.mapM fun (kv : String × Json) => do let x ← decVal kv.2; pure (kv.1, x)
  pure fun name => match rows.find? (fun e => e.1 == name) with | some e => e.2 | none => PyVal.none

def encCall (c : Rbacx.PyS.Call) : Json :=
  Json.mkObj [("callee", .str c.callee), ("args", .arr (c.args.map encVal).toArray)]

def encTrace (t : Rbacx.PyS.Trace) : Json :=
  Json.mkObj [("calls", .arr (t.calls.map encCall).toArray),
              ("ending", match t.ending with
                         | .next => .str "next"
                         | .raised => .str "raised"
                         | .returned v => Json.mkObj [("returned", encVal v)])]

partial def loop (hin hout : IO.FS.Stream) : IO Unit := do
  let line ← hin.getLine
  if line.isEmpty then return ()
  let out : Json :=
    match Json.parse line with
    | .error e => Json.mkObj [("error", .str e)]
    | .ok j =>
      match decNamed (field j "opaque"), decNamed (field j "args") with
      | .error e, _ => Json.mkObj [("error", .str e)]
      | _, .error e => Json.mkObj [("error", .str e)]
      | .ok opq, .ok args => encTrace (Src.evalSinks (decSinks (field j "sinks")) opq args)
  hout.putStrLn out.compress
  loop hin hout

def main : IO Unit := do
  let hin ← IO.getStdin
  let hout ← IO.getStdout
  loop hin hout
  hout.flush
