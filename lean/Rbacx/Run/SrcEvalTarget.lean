import Rbacx.Generated
import Driver.Codec
/-!
  Per-run evaluator of the TRANSLATED TARGET MATCHER (`Rbacx.Generated.Src.is_strict`, `Src.match_resource`): one JSON line in
  (`{"fn": name, "args": [values…], "oracle": {"str": [[value, text], …]}}` — `match_resource` takes `[rdef, resource, strict]`;
  the oracle table carries CPython's `str()` of the floats/containers among the arguments, computed by `proto.build_oracle` without
  calling rbacx, exactly as for the model driver), one JSON line out (the value the translation computes).  The harness
  (`translated_vs_python` in harness/props/c05.py) runs the real `match_resource` / `_is_strict` on the same arguments and compares:
  this validates the translator (harness/pytolean.py) and Model/PyLib.lean — what the obligation `C05_translated` trusts.
  Kept apart from SrcEval.lean / SrcEvalFrag.lean so that a change to `match_resource` cannot break the C02/C03/C17 runs.
  Run with `lake env lean --run Rbacx/Run/SrcEvalTarget.lean`.
-/
open Lean Codec Rbacx Rbacx.Generated

def evalTarget (o : Oracle) (fn : String) (args : List PyVal) : Except String PyVal :=
  match fn, args with
  | "_is_strict", [a] => .ok (Src.is_strict a)
  | "match_resource", [a, b, c] => .ok (Src.match_resource o a b c)
  | _, _ => .error s!"unknown function or arity: {fn}/{args.length}"

partial def loop (hin hout : IO.FS.Stream) : IO Unit := do
  let line ← hin.getLine
  if line.isEmpty then return ()
  let out : Json :=
    match Json.parse line with
    | .error e => Json.mkObj [("error", .str e)]
    | .ok j =>
      match (match field j "args" with | .arr xs => xs.toList.mapM decVal | _ => .error "args"), decOracle (field j "oracle") with
      | .error e, _ => Json.mkObj [("error", .str e)]
      | _, .error e => Json.mkObj [("error", .str e)]
      | .ok args, .ok o =>
        match evalTarget o (fieldStr j "fn") args with
        | .ok v => Json.mkObj [("value", encVal v)]
        | .error e => Json.mkObj [("error", .str e)]
  hout.putStrLn out.compress
  loop hin hout

def main : IO Unit := do
  let hin ← IO.getStdin
  let hout ← IO.getStdout
  loop hin hout
  hout.flush
