import Rbacx.Model.Cache
/-
  Rbacx.Spec.Cache — what C15 says about an *observed* history of cache calls, written without
  reference to `Cache.step` (no eviction loop, no purge, no `move_to_end`): only

  * `latest`      the abstract map `key ↦ (value, deadline)` of the most recent `set` of each key
                  since its last `delete` / the last `clear`,
  * `touchOrder`  keys ordered by when they were last stored or successfully looked up,
  * `keysSince`   the keys stored / found since a given key was last stored / found,

  and a decidable predicate `obsOk` on one observed call `(op, result, keys of _data afterwards)`.
  The driver evaluates `traceOk` on the **implementation's** observations; `Properties/C15.lean`
  proves it of the model's own trace (`c15_trace_ok`) for every history.
-/
namespace Rbacx.Cache

abbrev AMap (V : Type) := String → Option (V × Option Time)

/-- effect of one call on the abstract map (a `get` never changes it: dropping is the cache's business) -/
def aStep {V : Type} (m : AMap V) : Op V → AMap V
  | .set k v ttl now1 _ => fun x => if x = k then some (v, expiry ttl now1) else m x
  | .delete k => fun x => if x = k then none else m x
  | .clear => fun _ => none
  | .get _ _ => m

def aRun {V : Type} (m : AMap V) : List (Op V) → AMap V
  | [] => m
  | op :: ops => aRun (aStep m op) ops

/-- value and deadline of the latest `set` of `k` not followed by `delete k` / `clear` -/
def latest {V : Type} (h : List (Op V)) (k : String) : Option (V × Option Time) := aRun (fun _ => none) h k

/-- a call *touches* its key when it stores it or finds it -/
def touched {V : Type} (op : Op V) (out : Out V) : Option String :=
  match op, out with
  | .set k _ _ _ _, _ => some k
  | .get k _, .got (some _) => some k
  | _, _ => none

def touch {V : Type} (to : List String) (op : Op V) (out : Out V) : List String :=
  match touched op out with
  | some k => to.filter (· != k) ++ [k]
  | none => to

/-- the keys touched after the last touch of `k` (each once) -/
def keysSince (to : List String) (k : String) : List String := (to.dropWhile (· != k)).drop 1

/-- the key list right after the `self._data[key] = …; move_to_end(key)` of a `set` (other ops: unchanged) -/
def keysAfterInsert {V : Type} (ks : List String) : Op V → List String
  | .set k _ _ _ _ => ks.filter (· != k) ++ [k]
  | _ => ks

structure SpecSt (V : Type) where
  m : AMap V
  to : List String
  /-- observed keys of `_data` before the call -/
  keys : List String

def SpecSt.init {V : Type} : SpecSt V := ⟨fun _ => none, [], []⟩

def SpecSt.next {V : Type} (s : SpecSt V) (o : Obs V) : SpecSt V :=
  ⟨aStep s.m o.op, touch s.to o.op o.out, o.keys⟩

def deadlinePassed {V : Type} (m : AMap V) (k : String) (now : Time) : Bool :=
  match m k with
  | some (_, e) => expired e now
  | none => false

/-- hard capacity: never more than `max maxsize 0` entries, no key twice -/
def capOk {V : Type} (maxsize : Int) (o : Obs V) : Bool :=
  decide (o.keys.length ≤ maxsize.toNat) && decide o.keys.Nodup

/-- result of the call.  A `get` returns the latest value stored under the key iff that entry is
    still held and its deadline has not been reached (`deadline ≤ now` is reached), else None. -/
def outOk {V : Type} [DecidableEq V] (maxsize : Int) (s : SpecSt V) (o : Obs V) : Bool :=
  match o.op with
  | .get k now =>
    match s.m k with
    | none => o.out == .got none
    | some (v, e) =>
      if expired e now then o.out == .got none
      else if s.keys.contains k then o.out == .got (some v)
      else o.out == .got none
  | .set _ _ _ _ _ => if maxsize < 0 then o.out == .keyError else o.out == .done
  | _ => o.out == .done

/-- why a held key may be gone after the call -/
def lossExplained {V : Type} (maxsize : Int) (s : SpecSt V) (o : Obs V) (k : String) : Bool :=
  match o.op with
  | .delete k' => k == k'
  | .clear => true
  | .get k' now => k == k' && deadlinePassed s.m k now
  | .set _ _ _ _ now2 =>
    let s' := s.next o
    -- purged: its deadline is reached at the clock value the purge reads
    deadlinePassed s'.m k now2
    -- evicted for capacity: the dict was over-full, at least `maxsize` other keys were stored or
    -- found since `k` was, and every key that stays was stored or found after `k` (exact LRU)
    || (decide (maxsize < ((keysAfterInsert s.keys o.op).length : Int))
        && decide (maxsize ≤ ((keysSince s'.to k).length : Int))
        && o.keys.all (fun k2 => (keysSince s'.to k).contains k2))

def lossOk {V : Type} (maxsize : Int) (s : SpecSt V) (o : Obs V) : Bool :=
  (keysAfterInsert s.keys o.op).all (fun k => o.keys.contains k || lossExplained maxsize s o k)

/-- nothing appears but the key being stored -/
def gainOk {V : Type} (s : SpecSt V) (o : Obs V) : Bool :=
  o.keys.all (fun k => (keysAfterInsert s.keys o.op).contains k)

/-- `_data` is kept in recency order -/
def orderOk {V : Type} (s : SpecSt V) (o : Obs V) : Bool :=
  o.keys.isSublist (s.next o).to

def obsOk {V : Type} [DecidableEq V] (maxsize : Int) (s : SpecSt V) (o : Obs V) : Bool :=
  capOk maxsize o && outOk maxsize s o && lossOk maxsize s o && gainOk s o && orderOk s o

def traceOkFrom {V : Type} [DecidableEq V] (maxsize : Int) (s : SpecSt V) : List (Obs V) → Bool
  | [] => true
  | o :: rest => obsOk maxsize s o && traceOkFrom maxsize (s.next o) rest

/-- the whole observed history of a fresh cache satisfies C15 -/
def traceOk {V : Type} [DecidableEq V] (maxsize : Int) (obs : List (Obs V)) : Bool :=
  traceOkFrom maxsize SpecSt.init obs

/-- which clauses of `obsOk` an observation violates -/
def badClauses {V : Type} [DecidableEq V] (maxsize : Int) (s : SpecSt V) (o : Obs V) : List String :=
  (if capOk maxsize o then [] else ["capacity"]) ++ (if outOk maxsize s o then [] else ["result"])
    ++ (if lossOk maxsize s o then [] else ["loss"]) ++ (if gainOk s o then [] else ["gain"])
    ++ (if orderOk s o then [] else ["order"])

/-- every observation that violates the spec (index, clauses); the bookkeeping always follows the observations -/
def allBad {V : Type} [DecidableEq V] (maxsize : Int) (s : SpecSt V) (i : Nat) : List (Obs V) → List (Nat × List String)
  | [] => []
  | o :: rest =>
    (if obsOk maxsize s o then [] else [(i, badClauses maxsize s o)]) ++ allBad maxsize (s.next o) (i + 1) rest

/-- keys ever stored or found, least recently touched first -/
def touchOrderFrom {V : Type} (to : List String) : List (Obs V) → List String
  | [] => to
  | o :: rest => touchOrderFrom (touch to o.op o.out) rest

/-- … over the whole observed history of a fresh cache -/
def touchOrder {V : Type} (obs : List (Obs V)) : List String := touchOrderFrom [] obs

/-- spec bookkeeping after a whole observed history -/
def specAfter {V : Type} (s : SpecSt V) : List (Obs V) → SpecSt V
  | [] => s
  | o :: rest => specAfter (s.next o) rest

/-- the clock values a call reads, in program order -/
def lastTime {V : Type} (T : Time) : Op V → Time
  | .get _ now => now
  | .set _ _ _ _ now2 => now2
  | _ => T

/-- the injected clock never goes back (`time.monotonic`): every value read is ≥ the previous one, starting from `T` -/
def monoFrom {V : Type} (T : Time) : List (Op V) → Prop
  | [] => True
  | op :: rest =>
    (match op with
     | .get _ now => T ≤ now
     | .set _ _ _ now1 now2 => T ≤ now1 ∧ now1 ≤ now2
     | _ => True) ∧ monoFrom (lastTime T op) rest

/-- ghost: `ev k` = "the entry of the latest `set k` was popped by the capacity loop" -/
def evStep {V : Type} (c : Cfg) (d : List (Entry V)) (ev : String → Bool) (op : Op V) : String → Bool :=
  match op with
  | .set k' _ _ _ _ => fun x => (x != k' && ev x) || decide (x ∈ keys (capVictims c d op))
  | _ => ev

def evRun {V : Type} (c : Cfg) (d : List (Entry V)) (ev : String → Bool) : List (Op V) → String → Bool
  | [] => ev
  | op :: ops => evRun c (step c d op).1 (evStep c d ev op) ops

/-- after the history `ops` on a fresh cache, `k`'s latest entry has been evicted for capacity -/
def evicted {V : Type} (c : Cfg) (ops : List (Op V)) (k : String) : Bool := evRun c [] (fun _ => false) ops k

/-- no call of the history sets a deadline (`ttl` None, 0 or negative) -/
def noTtl {V : Type} (ops : List (Op V)) : Prop :=
  ∀ op ∈ ops, match op with | .set _ _ (some t) _ _ => t ≤ 0 | _ => True

/-- `v` was stored under `k` by a `set` that no `clear` followed (what C08's `SoundCache` asks of a cache);
    moreover that `set` is the latest one of `k` and no `delete k` followed it -/
def StoredSinceClear {V : Type} (ops : List (Op V)) (k : String) (v : V) : Prop :=
  ∃ ops1 ttl now1 now2 ops2, ops = ops1 ++ Op.set k v ttl now1 now2 :: ops2 ∧ Op.clear ∉ ops2
    ∧ Op.delete k ∉ ops2 ∧ ∀ v' ttl' n1 n2, Op.set k v' ttl' n1 n2 ∉ ops2

end Rbacx.Cache
