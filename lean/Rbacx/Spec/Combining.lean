import Rbacx.Proofs.PolicyLoop
/-
  Rbacx.Spec.Combining — the documented meaning of the three combining algorithms, written
  independently of the loops in `Policy.lean` / `PolicySet.lean` (no loop state, no `break`).
  The driver evaluates these predicates on the *implementation's* output; the theorems in
  `Properties/C02.lean` prove the model's output satisfies them.
-/
namespace Rbacx.Spec
open Rbacx

structure Res where
  decision : String
  applicable : Bool
  /-- id of the deciding child (policy sets only) -/
  policyId : PyVal := .none
deriving Inhabited

def knownAlgo (a : String) : Bool := a == "deny-overrides" || a == "permit-overrides" || a == "first-applicable"

/-- a single policy: decision from the outcomes of its rules -/
def leaf (algo : String) (outs : List Outcome) : Res :=
  { decision :=
      if algo == "deny-overrides" then specDecisionDO outs
      else if algo == "permit-overrides" then specDecisionPO outs
      else specDecisionFA outs,
    applicable := outs.any Outcome.applied }

/-- a policy set: combine the children's results `(id, result)` -/
def combine (algo : String) (kids : List (PyVal × Res)) : Res :=
  let app := kids.filter (·.2.applicable)
  let firstWith (d : String) := app.find? (·.2.decision == d)
  if algo == "first-applicable" then
    match app.head? with
    | some (pid, r) => { decision := r.decision, applicable := true, policyId := pid }
    | none => { decision := "deny", applicable := false }
  else if algo == "deny-overrides" then
    match firstWith "deny", firstWith "permit" with
    | some (pid, _), _ => { decision := "deny", applicable := true, policyId := pid }
    | none, some (pid, _) => { decision := "permit", applicable := true, policyId := pid }
    | none, none => { decision := "deny", applicable := false }
  else
    match firstWith "permit", firstWith "deny" with
    | some (pid, _), _ => { decision := "permit", applicable := true, policyId := pid }
    | none, some (pid, _) => { decision := "deny", applicable := true, policyId := pid }
    | none, none => { decision := "deny", applicable := false }

mutual
/-- the documented result of a (nested) policy set; `none` when some rule raises or an algorithm
    name is not one of the three -/
def tree (cx : CondCtx) (interpDflt setDflt : String) : PTree → Option Res
  | .leaf doc =>
    match lowerField (doc.get "algorithm") interpDflt, outcomes cx (rulesOf doc) with
    | .ok algo, .ok outs => if knownAlgo algo then some (leaf algo outs) else none
    | _, _ => none
  | .node doc children =>
    match lowerField (doc.get "algorithm") setDflt, kids cx interpDflt setDflt children with
    | .ok algo, some ks => if knownAlgo algo then some (combine algo ks) else none
    | _, _ => none
def kids (cx : CondCtx) (interpDflt setDflt : String) : List PTree → Option (List (PyVal × Res))
  | [] => some []
  | c :: cs =>
    match tree cx interpDflt setDflt c, kids cx interpDflt setDflt cs with
    | some r, some rs => some ((c.doc.get "id", r) :: rs)
    | _, _ => none
end

end Rbacx.Spec
