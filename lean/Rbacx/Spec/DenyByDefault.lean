import Rbacx.Proofs.GuardWitness
/-
  Rbacx.Spec.DenyByDefault — C01's statement as a decidable predicate over an observed Decision.
  It looks at every rule of the document on its own (no loops, no combining): "allowed ⇒ some
  applicable non-deny rule carries exactly the returned obligations and (built-in checker) they are
  all met", "allowed ⇔ effect = permit", "no applicable rule ⇒ deny".
-/
namespace Rbacx.Spec
open Rbacx

def obligationsMet (o : Oracle) (ctx : PyVal) (obls : List PyVal) : Bool :=
  obls.all fun ob => (obligationUnmet o "permit" ctx ob).isNone

/-- `none`: some rule raises a non-ConditionTypeError exception (outside the statement) -/
def c01 (o : Oracle) (cfg : GuardCfg) (policy : PyVal) (req : Request)
    (allowed : Bool) (effect : String) (obls : List PyVal) : Option Bool :=
  let cx := condCtx o cfg req
  match outcomes cx (allRules policy) with
  | .error _ => none
  | .ok outs =>
    let ctx := dictOr (req.context.getD .none)
    let builtin := match cfg.checker with | .builtin => true | _ => false
    let witness := outs.any fun out =>
      match out with
      | .applies e _ ro => !(e == "deny") && (PyVal.list ro == PyVal.list obls) && (!builtin || obligationsMet o ctx ro)
      | _ => false
    let iffOk := allowed == (effect == "permit")
    let noneApplicable := !(outs.any Outcome.applied)
    some (iffOk && (!allowed || witness) && (!noneApplicable || (!allowed && effect == "deny")))

end Rbacx.Spec
