import Rbacx.Spec.DenyByDefault
/-
  Rbacx.Spec.Engine — C03 and C11 as decidable predicates over an observed Decision.
-/
namespace Rbacx.Spec
open Rbacx

/-! ### C03: the most specific matching tier, from the declared shape of each rule -/

/-- does the rule name the request's resource type (stringified), resp. a wildcard/absent type -/
def namesType (rule : PyVal) (o : Oracle) (resType : PyVal) : Bool × Bool :=
  let r := PyVal.por (rule.get "resource") (.dict [])
  let t := r.get "type"
  let listed : List PyVal := match t with | .list xs => xs | .none => [] | v => [v]
  let strs := listed.filterMap PyVal.asStr?
  let wild := t.isNone || strs.contains "*" || strs.isEmpty
  let named := !resType.isNone && (strs.filter (· != "*")).contains (o.pyStr resType)
  -- a request without a type "names" the wildcard entries only
  (named || (resType.isNone && wild), wild)

/-- tier of a rule relative to the request: 0 id-specific, 1 attribute-constrained, 2 type-only
    (among rules naming the request's type); 3 wildcard/absent type; none = other type -/
def tier (o : Oracle) (rule : PyVal) (resType : PyVal) : Option Nat :=
  let (named, wild) := namesType rule o resType
  let r := PyVal.por (rule.get "resource") (.dict [])
  let hasId := !(r.get "id").isNone
  let hasAttrs := match attrsOf r with | .dict kvs => !kvs.isEmpty | _ => false
  if named then (if hasId then some 0 else if hasAttrs then some 1 else some 2)
  else if wild then some 3 else none

/-- a rule whose action and resource target match the request -/
def targetMatches (cx : CondCtx) (rule : PyVal) : Bool :=
  matchActions rule (PyVal.por (cx.env.get "action") (.str "")) &&
  matchResource cx.o (isStrict cx.env) (PyVal.por (rule.get "resource") (.dict []))
    (PyVal.por (cx.env.get "resource") (.dict []))

/-- reference evaluation of the policy restricted to the most specific tier holding a target-matching rule -/
def c03Reference (cx : CondCtx) (policy : PyVal) : Except CondErr Raw :=
  let resType := (PyVal.por (cx.env.get "resource") (.dict [])).get "type"
  let rules := rulesOf policy
  let best := [0, 1, 2, 3].find? fun i => rules.any fun r => tier cx.o r resType == some i && targetMatches cx r
  let restricted := match best with
    | some i => rules.filter fun r => tier cx.o r resType == some i
    | none => []
  match lowerField (policy.get "algorithm") "deny-overrides" with
  | .error e => .error e
  | .ok algo =>
    match rulesLoop cx algo {} restricted with
    | .error e => .error e
    | .ok s => .ok (finalise algo s)

/-- `none`: outside the statement (no explicit algorithm on a single policy, or the reference raises).
    `reason = obligation_failed` means the raw decision was a permit revoked by the obligation gate. -/
def c03 (o : Oracle) (cfg : GuardCfg) (policy : PyVal) (req : Request) (effect reason : String) : Option Bool :=
  let cx := condCtx o cfg req
  let implRawPermit := effect == "permit" || reason == "obligation_failed"
  if policy.hasKey "policies" then
    match decideTree cx cfg.consts.interpDefault cfg.consts.setDefault (treeOf policy) with
    | .ok raw => some ((raw.decision == "permit") == implRawPermit)
    | .error _ => none
  else if !(PyVal.por (policy.get "algorithm") (.str "")).truthy then none
  else
    match c03Reference cx policy with
    | .ok raw => some ((raw.decision == "permit") == implRawPermit)
    | .error _ => none

/-! ### C11: truthful explanations -/

def mismatchReasons : List String :=
  ["no_match", "action_mismatch", "resource_mismatch", "condition_mismatch", "condition_type_mismatch"]

mutual
/-- `(child id path, rule)` for every rule, with the id of the top-level child containing it -/
def rulesWithChild (top : PyVal) : PTree → List (PyVal × PyVal)
  | .leaf doc => (rulesOf doc).map fun r => (top, r)
  | .node _ cs => rulesWithChildL top cs
def rulesWithChildL (top : PyVal) : List PTree → List (PyVal × PyVal)
  | [] => []
  | c :: cs => rulesWithChild top c ++ rulesWithChildL top cs
end

/-- every rule paired with the id of the top-level child policy containing it (`None` for a single policy) -/
def rulesByChild (policy : PyVal) : List (PyVal × PyVal) :=
  match treeOf policy with
  | .leaf doc => (rulesOf doc).map fun r => (PyVal.none, r)
  | .node _ cs => cs.flatMap fun c => rulesWithChild (c.doc.get "id") c

/-- `none`: some rule raises -/
def c11 (o : Oracle) (cfg : GuardCfg) (policy : PyVal) (req : Request)
    (allowed : Bool) (effect : String) (ruleId policyId : PyVal) (reason : String) (obls : List PyVal) : Option Bool :=
  let cx := condCtx o cfg req
  let tagged := rulesByChild policy
  let outs := tagged.map fun (pid, r) => (pid, r, ruleOutcome cx r)
  if outs.any (fun x => match x.2.2 with | .error _ => true | _ => false) then none
  else
    let applied := outs.filterMap fun (pid, _, out) =>
      match out with
      | .ok (.applies e rid ro) => some (pid, e, rid, ro)
      | _ => none
    let exhibited := outs.filterMap fun (_, _, out) =>
      match out with
      | .ok (.applies _ _ _) => none
      | .ok out => some out.reason
      | _ => none
    if ruleId.isNone then
      -- no rule applied is claimed: the reason must be no_match or a mismatch kind some rule exhibited
      some (!allowed && effect == "deny" && (reason == "no_match" || exhibited.contains reason))
    else
      -- the id names an applicable rule with the reported effect (and, for permits, the returned obligations)
      let okRule := applied.any fun (pid, e, rid, ro) =>
        PyVal.pyEq rid ruleId &&
        (if reason == "matched" then !(e == "deny") && allowed && effect == "permit" && (PyVal.list ro == PyVal.list obls)
         else if reason == "explicit_deny" then e == "deny" && !allowed && effect == "deny"
         else if reason == "obligation_failed" then !(e == "deny") && !allowed && effect == "deny" && (PyVal.list ro == PyVal.list obls)
         else false) &&
        (policyId.isNone || PyVal.pyEq pid policyId)
      some okRule

end Rbacx.Spec
