import Rbacx.Model.FileSource
/-
  Rbacx.Spec.FileSpec — the decidable C16 predicates the driver evaluates on the *implementation's*
  observations (DESIGN §4.2): what one `atomic_write` under a fault left behind, and the tags a
  history of `etag()` calls returned (up to an injective renaming of the tag strings).
-/
namespace Rbacx.FileSrc.Spec
open Rbacx.FileSrc

/-- one faulted write: the target is the complete old (or absent) or the complete new content; unless the
    writer was killed no temp file is left; a write that returned wrote the new content -/
def atomicOk (old : Option Content) (new : Content) (outcome : AWOutcome) (target : Option Content)
    (tempsLeft : Nat) : Bool :=
  (decide (target = old) || decide (target = some new)) &&
  (decide (outcome = .crashed) || tempsLeft == 0) &&
  (!decide (outcome = .ok) || decide (target = some new))

/-- the proviso between two consecutive tag observations -/
def pairWithinClaim (prev cur : Option File) : Bool :=
  match prev, cur with
  | some f, some f' => decide (f.content = f'.content) || f.size != f'.size || f.mtime != f'.mtime
  | _, _ => true

/-- the longest prefix of the observations up to which the proviso holds -/
def provisoPrefix {α : Type} : Option File → List (Option File × α) → List (Option File × α)
  | _, [] => []
  | prev, (cur, t) :: rest => if pairWithinClaim prev cur then (cur, t) :: provisoPrefix cur rest else []

/-- a tag exactly when there is a file -/
def presenceRule {T : Type} (a : Option File × Option T) : Bool := a.1.isSome == a.2.isSome

/-- two observations of existing files: equal tags iff equal content (and, in mtime mode, equal mtime) -/
def tagRule {T : Type} [DecidableEq T] (mt : Bool) (a b : Option File × Option T) : Bool :=
  match a.1, b.1 with
  | some f, some f' =>
    decide (a.2 = b.2) == (decide (f.content = f'.content) && (!mt || decide (f.mtime = f'.mtime)))
  | _, _ => true

def pairsAll {α : Type} (p : α → α → Bool) : List α → Bool
  | [] => true
  | x :: xs => xs.all (p x) && pairsAll p xs

def etagsOkOn {T : Type} [DecidableEq T] (mt : Bool) (obs : List (Option File × Option T)) : Bool :=
  obs.all presenceRule && pairsAll (tagRule mt) obs

/-- the tag rules on the part of a history that is within the claim -/
def etagsOk {T : Type} [DecidableEq T] (mt : Bool) (obs : List (Option File × Option T)) : Bool :=
  etagsOkOn mt (provisoPrefix none obs)

/-- index pair of the first violated rule, for the replay file -/
def firstBad {T : Type} [DecidableEq T] (mt : Bool) (obs : List (Option File × Option T)) : Option (Nat × Nat) :=
  let pre := (provisoPrefix none obs).zipIdx
  pre.findSome? fun (a, i) =>
    if !presenceRule a then some (i, i)
    else pre.findSome? fun (b, j) => if i < j && !tagRule mt a b then some (i, j) else none

end Rbacx.FileSrc.Spec
