import Rbacx.Model.Cond
/-
  Rbacx.Spec.Operators — the documented *typing table* of the condition operators
  (docs/types.md, docs/time_operators.md), written over value kinds and independently of
  `evalBin`.  "Never coerces" = no operator yields a Boolean outside this table.
-/
namespace Rbacx.Spec
open Rbacx

inductive Kind where
  | none | bool | int | float | str | list | dict | dtAware | dtNaive
deriving DecidableEq, Repr, Inhabited

def kindOf : PyVal → Kind
  | .none => .none | .bool _ => .bool | .int _ => .int | .float _ => .float | .str _ => .str
  | .list _ => .list | .dict _ => .dict | .dt true _ => .dtAware | .dt false _ => .dtNaive

def Kind.isNum : Kind → Bool | .int => true | .float => true | _ => false

/-- kinds a time operator may read an instant from -/
def Kind.isTime (strict : Bool) : Kind → Bool
  | .dtAware => true
  | .dtNaive => !strict
  | .int => !strict
  | .float => !strict
  | .str => !strict
  | _ => false

/-- operand kinds for which the operator is defined (anything else is a type mismatch) -/
def accepts (strict : Bool) : BinOp → Kind → Kind → Bool
  | .eq, _, _ => true
  | .ne, _, _ => true
  | .gt, a, b => a.isNum && b.isNum
  | .lt, a, b => a.isNum && b.isNum
  | .ge, a, b => a.isNum && b.isNum
  | .le, a, b => a.isNum && b.isNum
  | .contains, .list, _ => true
  | .contains, .str, .str => true
  | .contains, _, _ => false
  | .isIn, _, .list => true
  | .isIn, .list, _ => true
  | .isIn, .str, .str => true
  | .isIn, _, _ => false
  | .hasAll, .list, .list => true
  | .hasAll, _, _ => false
  | .hasAny, .list, .list => true
  | .hasAny, _, _ => false
  | .startsWith, .str, .str => true
  | .startsWith, _, _ => false
  | .endsWith, .str, .str => true
  | .endsWith, _, _ => false
  | .before, a, b => a.isTime strict && b.isTime strict
  | .after, a, b => a.isTime strict && b.isTime strict
  | .between, a, .list => a.isTime strict
  | .between, _, _ => false

end Rbacx.Spec
