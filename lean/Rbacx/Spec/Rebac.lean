import Rbacx.Model.Rebac
/-
  Rbacx.Spec.Rebac — what "the relation is derivable from the stored tuples through the configured
  userset rewrites within the configured depth" means, written without any queue, `seen` set,
  visit counter or clock.

  * `CaveatSat`   a tuple counts iff it is unconditional or its caveat is registered and its predicate
                  returned true on the supplied context (unknown / raising / false: it does not count);
  * `DirectSat`   a stored, satisfied tuple `(s, rel, obj)`;
  * `Rewrites`    one userset-rewrite step: `ComputedUserset` on the same object, `TupleToUserset`
                  across a satisfied object→object edge, unions (nested); `This` and unknown nodes
                  yield nothing;
  * `Derivable d` derivable using at most `d` rewrite steps (the index is the depth budget).

  `specDerivable` is the *executable* rendering used by the driver to judge the implementation's
  answers: a layer-by-layer forward search that knows nothing about limits or pruning across
  layers.  `Proofs/RebacSpec.lean` proves it equivalent to `Derivable`.
-/
namespace Rbacx.Rebac

/-- the tuple is unconditional, or its caveat is registered and evaluated to true on the context -/
def CaveatSat (reg : Registry) (t : RelTuple) : Prop :=
  t.caveat = none ∨ ∃ c, t.caveat = some c ∧ reg c = some (.val true)

/-- a stored tuple `(s, rel, obj)` whose caveat (if any) is satisfied -/
def DirectSat (cfg : Config) (n : Triple) : Prop :=
  ∃ t ∈ cfg.tuples, t.subject = n.1 ∧ t.relation = n.2.1 ∧ t.resource = n.2.2 ∧ CaveatSat cfg.reg t

/-- `Rewrites cfg s obj e m`: expression `e`, read at subject `s` and object `obj`, yields node `m` -/
inductive Rewrites (cfg : Config) (s obj : String) : Expr → Triple → Prop
  | computed (r : String) : Rewrites cfg s obj (.computed r) (s, r, obj)
  | ttu (ts cu : String) (t : RelTuple) :
      t ∈ cfg.tuples → t.relation = ts → t.resource = obj → hasColon t.subject = true →
      CaveatSat cfg.reg t → Rewrites cfg s obj (.ttu ts cu) (s, cu, t.subject)
  | union (es : List Expr) (e : Expr) (m : Triple) :
      e ∈ es → Rewrites cfg s obj e m → Rewrites cfg s obj (.union es) m

/-- the rewrite rule configured for the node's object type and relation yields `m` -/
def RewritesTo (cfg : Config) (n m : Triple) : Prop :=
  ∃ e, lookupExpr cfg.rules (splitRef n.2.2).1 n.2.1 = some e ∧ Rewrites cfg n.1 n.2.2 e m

/-- derivable with at most `d` rewrite steps -/
inductive Derivable (cfg : Config) : Nat → Triple → Prop
  | direct {d : Nat} {n : Triple} : DirectSat cfg n → Derivable cfg d n
  | step {d : Nat} {n m : Triple} : RewritesTo cfg n m → Derivable cfg d m → Derivable cfg (d + 1) n

/-- derivable within the configured `max_depth` (a Python int; nothing is derivable within a negative depth) -/
def DerivableWithin (cfg : Config) (q : Triple) : Prop :=
  ∃ d : Nat, (d : Int) ≤ cfg.maxDepth ∧ Derivable cfg d q

/-! ### executable rendering (independent of the BFS) -/

def specCaveatOk (reg : Registry) (t : RelTuple) : Bool :=
  match t.caveat with
  | none => true
  | some c => reg c == some (.val true)

def specDirect (cfg : Config) (n : Triple) : Bool :=
  cfg.tuples.any fun t =>
    t.subject == n.1 && t.relation == n.2.1 && t.resource == n.2.2 && specCaveatOk cfg.reg t

mutual
def specRewrite (cfg : Config) (s obj : String) : Expr → List Triple
  | .computed r => [(s, r, obj)]
  | .ttu ts cu =>
    (cfg.tuples.filter fun t =>
        t.relation == ts && t.resource == obj && hasColon t.subject && specCaveatOk cfg.reg t).map
      fun t => (s, cu, t.subject)
  | .union es => specRewriteList cfg s obj es
  | .this => []
  | .other => []
def specRewriteList (cfg : Config) (s obj : String) : List Expr → List Triple
  | [] => []
  | e :: es => specRewrite cfg s obj e ++ specRewriteList cfg s obj es
end

def specSucc (cfg : Config) (n : Triple) : List Triple :=
  match lookupExpr cfg.rules (splitRef n.2.2).1 n.2.1 with
  | none => []
  | some e => specRewrite cfg n.1 n.2.2 e

/-- is some node of the frontier derivable within `d` steps?  (layer `k+1` = successors of layer `k`) -/
def specSearch (cfg : Config) : Nat → List Triple → Bool
  | 0, front => front.any (specDirect cfg)
  | d + 1, front => front.any (specDirect cfg) || specSearch cfg d (front.flatMap (specSucc cfg)).eraseDups

/-- decidable `DerivableWithin` -/
def specDerivable (cfg : Config) (q : Triple) : Bool :=
  if cfg.maxDepth < 0 then false else specSearch cfg cfg.maxDepth.toNat [q]

/-- the property as a predicate on an observed answer: an answer `true` must be derivable; and when the
    run hit neither the node limit nor the deadline the answer must equal derivability -/
def specOk (cfg : Config) (q : Triple) (limitHit : Bool) (answer : Bool) : Bool :=
  (!answer || specDerivable cfg q) && (limitHit || answer == specDerivable cfg q)

end Rbacx.Rebac
