import Rbacx.Model.Redact
/-
  Rbacx.Spec.Redact — the decidable spec predicates of C19.  The driver evaluates them on the
  *implementation's* emitted record; `Properties/C19.lean` proves the model's own output satisfies them
  (`c19_spec_*`).  They are written against the input (env, write list, configuration), not against the
  model's output.
-/
namespace Rbacx
namespace Redact

/-! ### redaction -/

/-- the secret is provably scrubbed by the write list: at the moment some write `(p, ph)` is applied it lands
    and the secret sits only under `p`, and neither `ph` nor a later placeholder carries the secret -/
def coveredAt (s : String) : PyVal → List (String × PyVal) → Bool
  | _, [] => false
  | o, w :: rest =>
    (landsPath o w.1 && !leakOutsidePath (holds s) o w.1 && !occurs s w.2 && rest.all (fun w' => !occurs s w'.2))
      || coveredAt s (setByPath o w.1 w.2) rest

/-- the same, judged on the *input* env alone: some configured path of plain keys / non-negative indices has
    the secret only under it (sound for such paths because the position they denote does not move) -/
def coveredStable (s : String) (env : PyVal) (ws : List (String × PyVal)) : Bool :=
  env.isDict && ws.all (fun w => !occurs s w.2) &&
    ws.any (fun w => stablePath w.1 && !leakOutsidePath (holds s) env w.1)

/-- every covered secret is absent from the observed record -/
def specNoLeak (env : PyVal) (ws : List (String × PyVal)) (secrets : List String) (out : PyVal) : Bool :=
  secrets.all fun s => if coveredAt s env ws || coveredStable s env ws then !occurs s out else true

/-- syntactic, conservative: a write along `q` cannot disturb a successful read along `p` -/
def disjointParts : List String → List String → Bool
  | [], _ => false
  | _, [] => false
  | p :: ps, q :: qs =>
    match parseSeg p, parseSeg q with
    | .invalid, _ => false
    | _, .invalid => true                                  -- `q` returns at this node without touching it
    | .key a, .key b => if a = b then disjointParts ps qs else true
    | .index a i, .index b j =>
      if a = b then
        (if 0 ≤ i ∧ 0 ≤ j then (if i = j then disjointParts ps qs else true) else false)
      else true
    | .key a, .index b _ => decide (a ≠ b)
    | .index a _, .key b => decide (a ≠ b)

def disjointPaths (p q : String) : Bool :=
  disjointParts (PyVal.splitStr '.' p) (PyVal.splitStr '.' q)

def readsAs (out : PyVal) (p : String) (ph : PyVal) : Bool :=
  match getByPath out p with
  | some x => PyVal.beq x ph
  | none => false

/-- every write that lands and is not disturbed by a later write is readable in the observed record -/
def specPlaceholder : PyVal → List (String × PyVal) → PyVal → Bool
  | _, [], _ => true
  | o, w :: rest, out =>
    (if landsPath o w.1 && rest.all (fun w' => disjointPaths w.1 w'.1) then readsAs out w.1 w.2 else true)
      && specPlaceholder (setByPath o w.1 w.2) rest out

/-- how many writes `specPlaceholder` actually makes a claim about (for the evidence: non-vacuity) -/
def placeholderClaims : PyVal → List (String × PyVal) → Nat
  | _, [] => 0
  | o, w :: rest =>
    (if landsPath o w.1 && rest.all (fun w' => disjointPaths w.1 w'.1) then 1 else 0)
      + placeholderClaims (setByPath o w.1 w.2) rest

/-! ### logger -/

def drawOK (d : FNum) : Bool := FNum.le .zero d && FNum.lt d .one

def isDenyCat (payload : PyVal) : Bool :=
  (match payload.get "decision" with | .str "deny" => true | _ => false) || !(payload.get "allowed").truthy

/-- rate 0 emits nothing, rate 1 everything; smart sampling with default rates always emits denies and
    permits with obligations -/
def specSampling (cfg : LogCfg) (payload : PyVal) (draw : FNum) (emitted : Bool) : Bool :=
  (if !cfg.smart && cfg.sampleRate.le .zero then !emitted else true) &&
  (if !cfg.smart && FNum.le .one cfg.sampleRate && drawOK draw then emitted else true) &&
  (if cfg.smart && (match cfg.strategy with | none => true | some [] => true | _ => false) &&
      (isDenyCat payload || (payload.get "obligations").truthy) && drawOK draw then emitted else true)

def isMarker : PyVal → Option Int
  | .dict [("_truncated", .bool true), ("size_bytes", .int n)] => some n
  | _ => none

/-- with an effective bound `b`: an env emitted in full has a serialised size within the bound; a marker
    reports a size above the bound, and that size is the size of the redacted env (`nRed`) -/
def specSize (cfg : LogCfg) (jsonSize : PyVal → Option Nat) (nRed : Option Nat) (out : PyVal) : Bool :=
  match effBound cfg with
  | none => true
  | some b =>
    match isMarker out with
    | some n => decide (n > b) && (match nRed with | some m => decide ((m : Int) = n) | none => false)
    | none =>
      match jsonSize out with
      | some m => decide ((m : Int) ≤ b)
      | none => true

/-- nothing configured (no explicit set and no opt-in, or an explicit empty list) ⇒ the env is not redacted -/
def specPriority (cfg : LogCfg) (payload : PyVal) (outRedacted : PyVal) : Bool :=
  match effectiveSpecs cfg with
  | [] => PyVal.beq outRedacted (envObj payload)
  | _ => true

end Redact
end Rbacx
