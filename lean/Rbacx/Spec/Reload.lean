import Rbacx.Model.Sources
/-
  Rbacx.Spec.Reload — the decidable per-check specification of C10, over *observations only*
  (what a caller can see of a reloader and its engine before and after a check).  The driver
  evaluates these predicates on the implementation's own trace; `Properties/C10.lean` proves them
  of the model's trace.
-/
namespace Rbacx.Reloader

/-- what is observable of the reloader + engine at a point in time -/
structure Snap where
  policy : Doc
  cacheEpoch : Nat
  suppressUntil : Time
  loads : Nat
deriving DecidableEq, Repr, Inhabited

def RState.snap (s : RState) : Snap :=
  { policy := s.enginePolicy, cacheEpoch := s.cacheEpoch, suppressUntil := s.suppressUntil, loads := s.loads }

/-- the check returned a bool -/
def specNoRaise : Out → Bool
  | .returned _ => true
  | .raised _ => false

/-- a check that returns False leaves engine and cache untouched -/
def specInert (a b : Snap) (o : Out) : Bool :=
  match o with
  | .returned false => b.policy == a.policy && b.cacheEpoch == a.cacheEpoch
  | _ => true

/-- `loaded` = the documents `source.load()` returned to this check.  The active policy changes
    only in a check that returns True, to the document that very check loaded, and the cache is
    cleared then; otherwise engine and cache are as before -/
def specInstalled (a b : Snap) (o : Out) (loaded : List Doc) : Bool :=
  match o with
  | .returned true => loaded.getLast? == some b.policy && b.cacheEpoch == a.cacheEpoch + 1
  | _ => b.policy == a.policy && b.cacheEpoch == a.cacheEpoch

/-- the suppression window set by a check that started at `now` is at most
    `max(0.2, backoff_max * (1 + jitter_ratio))`, `jitter_ratio = rN / rD ≥ 0` (cross-multiplied) -/
def specBackoff (cfg : Cfg) (rN rD : Int) (now : Time) (a b : Snap) : Bool :=
  b.suppressUntil == a.suppressUntil ||
    decide ((b.suppressUntil - now) * rD ≤ max (floorUs * rD) (cfg.backoffMax * (rD + rN)))

/-- a forced check always gets as far as `load()` -/
def specForced (force : Bool) (a b : Snap) : Bool := !force || b.loads == a.loads + 1

end Rbacx.Reloader
