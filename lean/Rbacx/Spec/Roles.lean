import Rbacx.Proofs.Roles
/-
  Rbacx.Spec.Roles — what "the expanded roles are the reflexive-transitive closure, sorted, no
  duplicates" means, written independently of the worklist in `Model/Roles.lean`: no stack, no
  visited set, its own key lookup (`List.find?`), its own order check.

  * `naiveClosure g roles`: start from the roles, add the parents of every member, repeat once
    per name that occurs anywhere (more rounds than the longest simple path);
  * `isClosureOf g roles out`: the decidable verdict the driver evaluates on the IMPLEMENTATION's
    output — strictly increasing in code-point order, contains the roots, closed under parents,
    and nothing beyond the naive closure.

  `isClosureOf_sound` (below) proves the verdict implies the property statement of C18, so an
  accepted output is exactly the `Reach`-closure; `Properties/C18.lean` proves the model's own
  output is accepted.
-/
namespace Rbacx.Spec.Roles
open Rbacx.Roles

/-- `graph.get(r, [])` by `find?` -/
def parentsOf (g : Graph) (r : String) : List String :=
  match g.find? (fun e => e.1 == r) with
  | some e => e.2
  | none => []

/-- add the elements of the second list that are not yet members -/
def addAll : List String → List String → List String
  | s, [] => s
  | s, x :: xs => if x ∈ s then addAll s xs else addAll (x :: s) xs

/-- one round: every parent of every member -/
def grow (g : Graph) (s : List String) : List String := addAll s (s.flatMap (parentsOf g))

def iter (g : Graph) : Nat → List String → List String
  | 0, s => s
  | n + 1, s => iter g n (grow g s)

/-- every name occurring in the roles, the keys or the parent lists (with repetitions) -/
def allNames (g : Graph) (roles : List String) : List String :=
  roles ++ g.map (·.1) ++ g.flatMap (·.2)

def naiveClosure (g : Graph) (roles : List String) : List String :=
  iter g (allNames g roles).length (addAll [] roles)

def strictlySorted : List String → Bool
  | [] => true
  | [_] => true
  | x :: y :: rest => decide (x < y) && strictlySorted (y :: rest)

/-- the verdict, given the naive closure `nc` (computed once by the caller) -/
def isClosureOfWith (nc : List String) (g : Graph) (roles out : List String) : Bool :=
  strictlySorted out
  && roles.all (fun r => decide (r ∈ out))
  && out.all (fun x => (parentsOf g x).all fun p => decide (p ∈ out))
  && out.all (fun x => decide (x ∈ nc))

def isClosureOf (g : Graph) (roles out : List String) : Bool :=
  isClosureOfWith (naiveClosure g roles) g roles out

/-! ### the verdict implies the property -/

theorem parentsOf_eq (g : Graph) (r : String) : parentsOf g r = parents g r := by
  unfold parentsOf parents
  induction g with
  | nil => rfl
  | cons e g ih =>
    obtain ⟨k, ps⟩ := e
    simp only [List.find?_cons, lookup]
    by_cases h : k = r
    · simp [h]
    · have : (k == r) = false := by simpa using h
      simp only [this, h, if_false]
      exact ih

theorem mem_addAll {s t : List String} {y : String} : y ∈ addAll s t ↔ y ∈ s ∨ y ∈ t := by
  induction t generalizing s with
  | nil => simp [addAll]
  | cons x xs ih =>
    simp only [addAll]
    split
    · rename_i hx
      rw [ih]
      constructor
      · rintro (h | h)
        · exact Or.inl h
        · exact Or.inr (List.mem_cons_of_mem _ h)
      · rintro (h | h)
        · exact Or.inl h
        · rcases List.mem_cons.mp h with h | h
          · subst h; exact Or.inl hx
          · exact Or.inr h
    · rw [ih]
      simp only [List.mem_cons]
      constructor
      · rintro ((h | h) | h)
        · exact Or.inr (Or.inl h)
        · exact Or.inl h
        · exact Or.inr (Or.inr h)
      · rintro (h | h | h)
        · exact Or.inl (Or.inr h)
        · exact Or.inl (Or.inl h)
        · exact Or.inr h

theorem mem_grow {g : Graph} {s : List String} {y : String} :
    y ∈ grow g s ↔ y ∈ s ∨ ∃ x ∈ s, parentOf g x y := by
  unfold grow
  rw [mem_addAll, List.mem_flatMap]
  simp only [parentsOf_eq, parentOf]

/-- the naive iteration never leaves the closure -/
theorem iter_sound (g : Graph) (P : String → Prop) (hP : ∀ a b, P a → parentOf g a b → P b)
    (n : Nat) (s : List String) (hs : ∀ x ∈ s, P x) : ∀ x ∈ iter g n s, P x := by
  induction n generalizing s with
  | zero => exact hs
  | succ n ih =>
    simp only [iter]
    apply ih
    intro x hx
    rcases mem_grow.mp hx with h | ⟨a, ha, hp⟩
    · exact hs x h
    · exact hP a x (hs a ha) hp

theorem naiveClosure_sound (g : Graph) (roles : List String) (r : String) (h : r ∈ naiveClosure g roles) :
    ∃ r₀ ∈ roles, Reach g r₀ r := by
  refine iter_sound g (fun x => ∃ r₀ ∈ roles, Reach g r₀ x) ?_ _ _ ?_ r h
  · rintro a b ⟨r₀, h0, hr⟩ hp; exact ⟨r₀, h0, Reach.step hr hp⟩
  · intro x hx
    rcases mem_addAll.mp hx with h | h
    · cases h
    · exact ⟨x, h, Reach.refl x⟩

theorem strictlySorted_pairwise {l : List String} (h : strictlySorted l = true) : l.Pairwise (· < ·) := by
  induction l with
  | nil => exact List.Pairwise.nil
  | cons x xs ih =>
    cases xs with
    | nil => simp
    | cons y rest =>
      simp only [strictlySorted, Bool.and_eq_true, decide_eq_true_eq] at h
      have ih' := ih h.2
      have hy := List.pairwise_cons.mp ih'
      refine List.pairwise_cons.mpr ⟨?_, ih'⟩
      intro a ha
      rcases List.mem_cons.mp ha with h' | h'
      · subst h'; exact h.1
      · exact String.lt_trans h.1 (hy.1 a h')

/-- an output accepted by the verdict is strictly increasing and is exactly the set of roles
    reachable from the given ones -/
theorem isClosureOf_sound (g : Graph) (roles out : List String) (h : isClosureOf g roles out = true) :
    out.Pairwise (· < ·) ∧ ∀ r, r ∈ out ↔ ∃ r₀ ∈ roles, Reach g r₀ r := by
  simp only [isClosureOf, isClosureOfWith, Bool.and_eq_true, List.all_eq_true, decide_eq_true_eq] at h
  obtain ⟨⟨⟨hsorted, hroots⟩, hclosed⟩, hmin⟩ := h
  refine ⟨strictlySorted_pairwise hsorted, fun r => ⟨fun hr => naiveClosure_sound g roles r (hmin r hr), ?_⟩⟩
  rintro ⟨r₀, h0, hr⟩
  refine closed_reach (S := out) ?_ hr (hroots r₀ h0)
  intro x hx p hp
  exact hclosed x hx p (by rw [parentsOf_eq]; exact hp)

/-! ### the naive iteration reaches the closure (so the model's output is accepted) -/

def Closed (g : Graph) (s : List String) : Prop := ∀ x ∈ s, ∀ p, parentOf g x p → p ∈ s

/-- names of `U` not yet in `s` -/
def missing (U s : List String) : Nat := (U.filter fun u => decide (u ∉ s)).length

theorem missing_le {U s t : List String} (hst : ∀ x ∈ s, x ∈ t) : missing U t ≤ missing U s := by
  unfold missing
  induction U with
  | nil => simp
  | cons u U ih =>
    simp only [List.filter_cons]
    by_cases h1 : u ∈ s
    · have h2 : u ∈ t := hst u h1
      simp only [h1, h2, not_true_eq_false, decide_false, Bool.false_eq_true, if_false]
      exact ih
    · by_cases h2 : u ∈ t
      · simp only [h1, h2, not_true_eq_false, not_false_eq_true, decide_true, decide_false, Bool.false_eq_true,
          if_false, if_true, List.length_cons]
        omega
      · simp only [h1, h2, not_false_eq_true, decide_true, if_true, List.length_cons]
        omega

theorem missing_lt {U s t : List String} (hst : ∀ x ∈ s, x ∈ t) {p : String} (hU : p ∈ U) (hpt : p ∈ t)
    (hps : p ∉ s) : missing U t < missing U s := by
  induction U with
  | nil => cases hU
  | cons u U ih =>
    have hle := missing_le (U := U) hst
    unfold missing at hle ih ⊢
    simp only [List.filter_cons]
    by_cases hu : u = p
    · subst hu
      simp only [hps, hpt, not_true_eq_false, not_false_eq_true, decide_true, decide_false, Bool.false_eq_true,
        if_false, if_true, List.length_cons]
      omega
    · have hU' : p ∈ U := by
        rcases List.mem_cons.mp hU with h | h
        · exact absurd h.symm hu
        · exact h
      have := ih hU'
      by_cases h1 : u ∈ s
      · have h2 : u ∈ t := hst u h1
        simp only [h1, h2, not_true_eq_false, decide_false, Bool.false_eq_true, if_false]
        exact this
      · by_cases h2 : u ∈ t
        · simp only [h1, h2, not_true_eq_false, not_false_eq_true, decide_true, decide_false, Bool.false_eq_true,
            if_false, if_true, List.length_cons]
          omega
        · simp only [h1, h2, not_false_eq_true, decide_true, if_true, List.length_cons]
          omega

theorem missing_zero {U s : List String} (h : missing U s = 0) : ∀ u ∈ U, u ∈ s := by
  intro u hu
  unfold missing at h
  have hnil := List.eq_nil_of_length_eq_zero h
  apply Classical.byContradiction
  intro hn
  have : u ∈ U.filter fun u => decide (u ∉ s) := List.mem_filter.mpr ⟨hu, by simpa using hn⟩
  rw [hnil] at this
  cases this

theorem parent_mem_allNames {g : Graph} {roles : List String} {x p : String} (h : parentOf g x p) :
    p ∈ allNames g roles := by
  unfold parentOf parents at h
  cases hl : lookup x g with
  | none => rw [hl] at h; cases h
  | some ps =>
    rw [hl] at h
    obtain ⟨k, hk⟩ := lookup_mem hl
    unfold allNames
    exact List.mem_append_right _ (List.mem_flatMap.mpr ⟨(k, ps), hk, h⟩)

theorem grow_closed {g : Graph} {s : List String} (h : Closed g s) : Closed g (grow g s) := by
  have hsame : ∀ y, y ∈ grow g s → y ∈ s := by
    intro y hy
    rcases mem_grow.mp hy with h' | ⟨x, hx, hp⟩
    · exact h'
    · exact h x hx y hp
  intro x hx p hp
  exact mem_grow.mpr (Or.inl (h x (hsame x hx) p hp))

theorem iter_closed_of_closed {g : Graph} (n : Nat) {s : List String} (h : Closed g s) : Closed g (iter g n s) := by
  induction n generalizing s with
  | zero => exact h
  | succ n ih => exact ih (grow_closed h)

theorem iter_mono (g : Graph) (n : Nat) (s : List String) : ∀ x ∈ s, x ∈ iter g n s := by
  induction n generalizing s with
  | zero => intro x hx; exact hx
  | succ n ih => intro x hx; exact ih (grow g s) x (mem_grow.mpr (Or.inl hx))

/-- every round either is at the fixpoint or consumes a name of the universe -/
theorem iter_closed (g : Graph) (U : List String) (hU : ∀ x p, parentOf g x p → p ∈ U) (n : Nat) (s : List String)
    (hm : missing U s ≤ n) : Closed g (iter g n s) := by
  induction n generalizing s with
  | zero =>
    intro x _ p hp
    exact missing_zero (Nat.le_zero.mp hm) p (hU x p hp)
  | succ n ih =>
    by_cases hc : Closed g s
    · exact iter_closed_of_closed _ hc
    · simp only [iter]
      apply ih
      have : ∃ x ∈ s, ∃ p, parentOf g x p ∧ p ∉ s := by
        apply Classical.byContradiction
        intro hne
        apply hc
        intro x hx p hp
        apply Classical.byContradiction
        intro hps
        exact hne ⟨x, hx, p, hp, hps⟩
      obtain ⟨x, hx, p, hp, hps⟩ := this
      have hlt := missing_lt (U := U) (s := s) (t := grow g s) (fun y hy => mem_grow.mpr (Or.inl hy))
        (hU x p hp) (mem_grow.mpr (Or.inr ⟨x, hx, hp⟩)) hps
      omega

theorem mem_naiveClosure (g : Graph) (roles : List String) (r : String) :
    r ∈ naiveClosure g roles ↔ ∃ r₀ ∈ roles, Reach g r₀ r := by
  refine ⟨naiveClosure_sound g roles r, ?_⟩
  rintro ⟨r₀, h0, hr⟩
  have hc : Closed g (naiveClosure g roles) := by
    apply iter_closed g (allNames g roles) (fun x p hp => parent_mem_allNames hp)
    unfold missing
    exact List.length_filter_le _ _
  refine closed_reach hc hr ?_
  exact iter_mono g _ _ r₀ (mem_addAll.mpr (Or.inr h0))

theorem pairwise_strictlySorted {l : List String} (h : l.Pairwise (· < ·)) : strictlySorted l = true := by
  induction l with
  | nil => rfl
  | cons x xs ih =>
    cases xs with
    | nil => rfl
    | cons y rest =>
      have hx := List.pairwise_cons.mp h
      simp only [strictlySorted, Bool.and_eq_true, decide_eq_true_eq]
      exact ⟨hx.1 y List.mem_cons_self, ih hx.2⟩

/-- conversely, the strictly sorted enumeration of the closure is accepted -/
theorem isClosureOf_complete (g : Graph) (roles out : List String) (hs : out.Pairwise (· < ·))
    (hm : ∀ r, r ∈ out ↔ ∃ r₀ ∈ roles, Reach g r₀ r) : isClosureOf g roles out = true := by
  simp only [isClosureOf, isClosureOfWith, Bool.and_eq_true, List.all_eq_true, decide_eq_true_eq]
  refine ⟨⟨⟨pairwise_strictlySorted hs, ?_⟩, ?_⟩, ?_⟩
  · intro r hr; exact (hm r).mpr ⟨r, hr, Reach.refl r⟩
  · intro x hx p hp
    obtain ⟨r₀, h0, hr⟩ := (hm x).mp hx
    exact (hm p).mpr ⟨r₀, h0, Reach.step hr (by rw [parentsOf_eq] at hp; exact hp)⟩
  · intro x hx; exact (mem_naiveClosure g roles x).mpr ((hm x).mp hx)

end Rbacx.Spec.Roles
