#!/bin/sh
# Offline setup: build the Lean library + model driver, install jsonschema from the local wheelhouse.
set -e
DIR="$(cd "$(dirname "$0")" && pwd)"
cd "$DIR"
if [ ! -d .pydeps/jsonschema ]; then
  /venv/bin/pip install --quiet --no-index --find-links /opt/veriftools/wheels --target "$DIR/.pydeps" jsonschema || true
fi
PYTHONPATH="$DIR/harness" /venv/bin/python -c "import extract, registry, os; extract.write(extract.extract()); open(os.path.join('lean','Rbacx','Audit.lean'),'w').write(registry.audit_source())"
cd lean && lake build Rbacx driver Rbacx.Generated
